package props

import (
	"encoding/json"
	"fmt"
	"strings"
	"testing"

	"pgregory.net/rapid"

	"verif/harness/internal/ev"
	"verif/harness/internal/gen"
	"verif/harness/internal/kchild"
	"verif/harness/internal/kjob"
	"verif/harness/internal/model"
	"verif/harness/internal/spec"
)

// C09 — a nil load result means the filter is in force; failed loads leave none behind.

type c09Op struct {
	Op     string `json:"op"` // load / supported
	Thread int    `json:"thread"`
	NNP    bool   `json:"nnp,omitempty"`
	Flag   uint32 `json:"flag,omitempty"`
	Kind   string `json:"kind,omitempty"`   // valid / unknown-name / bad-index / no-groups / oversize
	Denied uint32 `json:"denied,omitempty"` // valid: bit i set => probe i answered errno
	// nested-load: while the load on Thread is between its preparation and the installation, a second load (valid
	// policy Denied2, same no_new_privs request, no flags) runs completely on Thread2
	Thread2 int    `json:"thread2,omitempty"`
	Denied2 uint32 `json:"denied2,omitempty"`
	// Reassembled (load of a valid policy): the Policy value compiled and printed another policy before (same shape) and
	// was then edited in place: the NEW filter has to be in force
	Reassembled bool `json:"reassembled,omitempty"`
}

type c09Case struct {
	// GOARCH: the build of the child ("" = amd64, or 386: the loader is build-tagged code)
	GOARCH string `json:"goarch,omitempty"`
	// InjectEnosys: the child runs under strace with the fault injection seccomp:error=ENOSYS: seccomp(2) fails with
	// ENOSYS in every thread without any filter being installed (a kernel without the system call). Every load must
	// fail and leave everything as it was; probing for support must change nothing.
	InjectEnosys bool    `json:"inject_enosys,omitempty"`
	Threads      int     `json:"threads"`
	Uid          int     `json:"uid"` // 0 or 65534
	Ops          []c09Op `json:"ops"`
}

func c09Policy(op c09Op) spec.Policy { return c09PolicyFor("x86_64", op) }

func c09PolicyFor(archName string, op c09Op) spec.Policy {
	p := spec.Policy{Arch: archName, Default: actAllow}
	switch op.Kind {
	case "valid":
		g := spec.Group{Action: actErrno}
		for i, n := range probeNames {
			if op.Denied&(1<<uint(i)) != 0 {
				g.Names = append(g.Names, n)
			}
		}
		if len(g.Names) == 0 {
			g.Names = []string{probeNames[0]}
		}
		p.Groups = []spec.Group{g}
	case "allow-only", "log-only":
		// a valid policy that denies nothing: it has to be installed like any other
		g := spec.Group{Action: actAllow}
		if op.Kind == "log-only" {
			g.Action = actLog
		}
		for i, n := range probeNames {
			if op.Denied&(1<<uint(i)) != 0 {
				g.Names = append(g.Names, n)
			}
		}
		if len(g.Names) == 0 {
			g.Names = []string{probeNames[0]}
		}
		p.Groups = []spec.Group{g}
	case "unknown-name":
		p.Groups = []spec.Group{{Action: actErrno, Names: []string{"getppid", "no_such_syscall"}}}
	case "bad-index":
		p.Groups = []spec.Group{{Action: actErrno, Names: []string{"getppid"}, Conds: []spec.CondEntry{{Name: "getuid", Conds: []spec.Cond{{Arg: 6, Op: "Equal", Val: 1}}}}}}
	case "no-groups":
		p.Groups = nil
	case "oversize":
		p.Groups = []spec.Group{oversizeGroupFor(archName)}
	case "len-65536", "len-65535", "len-65537", "len-131072":
		// the program's length wraps in the 16-bit length field of sock_fprog (to 0, 65535, 1, 0): the kernel attaches
		// nothing in any of these cases
		var n int
		fmt.Sscanf(op.Kind, "len-%d", &n)
		if q, ok := policyOfLength(archName, n); ok {
			p = q
		} else {
			p.Groups = []spec.Group{oversizeGroupFor(archName)}
		}
	}
	return p
}

func deniedVector(op c09Op) []bool {
	v := make([]bool, len(probeNames))
	if op.Kind == "allow-only" || op.Kind == "log-only" {
		return v
	}
	if op.Kind == "oversize" || strings.HasPrefix(op.Kind, "len-") {
		v[0] = true // getppid
		return v
	}
	any := false
	for i := range probeNames {
		if op.Denied&(1<<uint(i)) != 0 {
			v[i] = true
			any = true
		}
	}
	if !any {
		v[0] = true
	}
	return v
}

func drawC09(t *rapid.T) c09Case {
	c := c09Case{Threads: rapid.IntRange(1, 6).Draw(t, "threads")}
	if rapid.IntRange(0, 3).Draw(t, "unprivileged") == 0 {
		c.Uid = 65534
	}
	n := rapid.IntRange(2, 12).Draw(t, "nops")
	// flag words: the four combinations of thread-sync and log, alone and together with further known bits (0x4
	// SPEC_ALLOW, 0x10 TSYNC_ESRCH) or with bits no kernel knows (the kernel answers EINVAL and attaches nothing)
	flags := []uint32{0, 0, 1, 1, 2, 3, 0x80, 0xfffffffe, 0x11, 0x4, 0x5, 0x7, 0x13, 0x102, 0x103, 0x101, 0x43, 0x8003, 0x80000003, 0x80000001, 0x42,
		// combinations of bits the kernel knows: some it accepts (0x8 new listener: returns a descriptor; 0x19, 0x28),
		// some it refuses with EINVAL (0x20 and 0x22 wait-killable without a listener, 0x9 thread-sync with a listener)
		0x8, 0x9, 0x20, 0x22, 0x28, 0x19, 0xa, 0x30, 0x3f}
	kinds := []string{"valid", "valid", "valid", "valid", "unknown-name", "bad-index", "no-groups", "oversize", "allow-only", "log-only",
		"valid", "valid", "valid", "valid", "unknown-name", "bad-index", "no-groups", "oversize", "allow-only", "log-only",
		"valid", "valid", "valid", "valid", "unknown-name", "bad-index", "no-groups", "oversize", "allow-only", "log-only",
		"valid", "valid", "valid", "valid", "unknown-name", "bad-index", "no-groups", "oversize", "allow-only", "log-only",
		[]string{"len-65536", "len-65536", "len-65535", "len-65537", "len-131072"}[rapid.IntRange(0, 4).Draw(t, "lenKind")]}
	if rapid.IntRange(0, 3).Draw(t, "abi") == 0 {
		c.GOARCH = "386"
	}
	if rapid.IntRange(0, 7).Draw(t, "injectEnosys") == 0 {
		c.InjectEnosys, c.Uid, c.GOARCH = true, 0, ""
	}
	loadedNoTsync := map[int]bool{}
	faulted := false
	for i := 0; i < n; i++ {
		var op c09Op
		switch k := rapid.IntRange(0, 9).Draw(t, "opClass"); {
		case k == 0 && !faulted && i > 0 && rapid.IntRange(0, 2).Draw(t, "enosys") == 0:
			// from here on seccomp(2) fails with ENOSYS in the whole process (outer sandbox / old kernel)
			op = c09Op{Op: "enosys-fault"}
			faulted = true
		case k == 0:
			op = c09Op{Op: "supported", Thread: rapid.IntRange(0, c.Threads-1).Draw(t, "thread")}
		case k == 9 && c.Threads >= 2:
			// two loads of different policies on two threads, the second one running while the first is under way
			op = c09Op{Op: "nested-load", Thread: rapid.IntRange(0, c.Threads-1).Draw(t, "thread"), NNP: rapid.IntRange(0, 3).Draw(t, "nnp") != 0,
				Kind: "valid", Denied: uint32(rapid.IntRange(1, 63).Draw(t, "denied"))}
			op.Thread2 = (op.Thread + rapid.IntRange(1, c.Threads-1).Draw(t, "thread2")) % c.Threads
			op.Denied2 = op.Denied ^ uint32(rapid.IntRange(1, 63).Draw(t, "denied2"))
			if op.Denied2 == 0 {
				op.Denied2 = ^op.Denied & 63
			}
			loadedNoTsync[op.Thread] = true
			loadedNoTsync[op.Thread2] = true
		case k <= 2 && len(loadedNoTsync) >= 1 && c.Threads >= 2:
			// aim at a refused thread-sync: some thread carries a filter of its own, sync from another thread
			var other int
			for other = 0; other < c.Threads; other++ {
				if !loadedNoTsync[other] {
					break
				}
			}
			if other >= c.Threads {
				other = rapid.IntRange(0, c.Threads-1).Draw(t, "thread")
			}
			op = c09Op{Op: "load", Thread: other, NNP: true, Flag: []uint32{1, 3, 0x11}[rapid.IntRange(0, 2).Draw(t, "tsyncFlag")], Kind: "valid",
				Denied: uint32(rapid.IntRange(1, 63).Draw(t, "denied"))}
		default:
			op = c09Op{Op: "load", Thread: rapid.IntRange(0, c.Threads-1).Draw(t, "thread"), NNP: rapid.IntRange(0, 3).Draw(t, "nnp") != 0,
				Flag: flags[rapid.IntRange(0, len(flags)-1).Draw(t, "flag")], Kind: kinds[rapid.IntRange(0, len(kinds)-1).Draw(t, "kind")],
				Denied: uint32(rapid.IntRange(1, 63).Draw(t, "denied"))}
			if (op.Kind == "valid" || op.Kind == "allow-only" || op.Kind == "log-only") && op.Flag&1 == 0 && op.Flag < 4 {
				loadedNoTsync[op.Thread] = true
			}
		}
		if op.Op == "load" && op.Kind == "valid" && rapid.IntRange(0, 3).Draw(t, "reassembled") == 0 {
			op.Reassembled = true
		}
		c.Ops = append(c.Ops, op)
	}
	return c
}

type c09Snap struct {
	st     map[int]kjob.ThreadStatus // by command thread index
	rt     []kjob.ThreadStatus       // runtime threads
	denied map[int][]bool            // by command thread index: probe i denied
}

func c09SnapEqual(a, b kjob.ThreadStatus) bool {
	return a.Seccomp == b.Seccomp && a.Filters == b.Filters && a.NNP == b.NNP
}

func checkC09(raw json.RawMessage) (ev.Result, error) {
	var c c09Case
	if err := json.Unmarshal(raw, &c); err != nil {
		return ev.Result{}, ev.Inconclusivef("bad case: %v", err)
	}
	if hostArchName() != "x86_64" {
		return ev.Result{}, ev.Inconclusivef("kernel checks are set up for an x86_64 host")
	}
	archName := "x86_64"
	if c.GOARCH == "386" {
		archName = "i386"
	}
	base := baselineProbes(archName)
	job := &kjob.Job{}
	job.Steps = append(job.Steps, kjob.Step{Op: "mkthreads", N: c.Threads})
	// snapshot block: probe on every thread + allstatus; returns index of first step of the block
	snapAt := []int{}
	addSnap := func() {
		snapAt = append(snapAt, len(job.Steps))
		for i := 0; i < c.Threads; i++ {
			job.Steps = append(job.Steps, kjob.Step{Op: "probe", Thread: i, Probes: base})
		}
		job.Steps = append(job.Steps, kjob.Step{Op: "allstatus"})
	}
	addSnap()
	opAt := []int{}
	for _, op := range c.Ops {
		opAt = append(opAt, len(job.Steps))
		switch op.Op {
		case "supported":
			job.Steps = append(job.Steps, kjob.Step{Op: "supported", Thread: op.Thread})
		case "enosys-fault":
			// per thread, because a thread-sync'ed installation would be refused once threads carry filters of their own
			for i := 1; i < c.Threads; i++ {
				job.Steps = append(job.Steps, kjob.Step{Op: "outer-enosys-thread", Thread: i})
			}
			opAt[len(opAt)-1] = len(job.Steps)
			job.Steps = append(job.Steps, kjob.Step{Op: "outer-enosys-thread", Thread: 0})
		case "nested-load":
			in := op
			in.Denied = op.Denied2
			job.Steps = append(job.Steps, kjob.Step{Op: "nested-load", Thread: op.Thread, Filter: &kjob.FilterSpec{Policy: c09PolicyFor(archName, op), NNP: op.NNP, HostArch: true},
				Inner: &kjob.Step{Op: "load", Thread: op.Thread2, Filter: &kjob.FilterSpec{Policy: c09PolicyFor(archName, in), NNP: op.NNP, HostArch: true}}})
		default:
			job.Steps = append(job.Steps, kjob.Step{Op: "load", Thread: op.Thread, Filter: &kjob.FilterSpec{Policy: c09PolicyFor(archName, op), NNP: op.NNP, Flag: op.Flag, HostArch: true,
				Reassembled: op.Reassembled && op.Kind == "valid"}})
		}
		addSnap()
	}
	ro := kchild.RunOpts{Uid: c.Uid, GOARCH: c.GOARCH}
	if c.InjectEnosys {
		ro.Strace, ro.Inject = true, "seccomp:error=ENOSYS"
	}
	rr, err := kchild.Run(job, ro)
	if err != nil {
		return ev.Result{}, ev.Inconclusivef("%v", err)
	}
	if s, strict := rr.StrictModeEntered(); strict {
		return ev.Result{}, fmt.Errorf("thread %d entered seccomp strict mode (%s(%s) = %s in the trace): the helper never asks for that, so an operation of the library changed the thread's state destructively (child finished: %v)",
			s.Tid, s.Name, strings.Join(s.Args, ", "), s.Ret, !rr.TimedOut)
	}
	if rr.TimedOut {
		return ev.Result{}, ev.Inconclusivef("child timed out")
	}
	if rr.Signaled {
		// e.g. Supported() entering strict mode: the child is killed at the next system call
		last := "start"
		for _, e := range rr.Events {
			if strings.HasPrefix(e.Ev, "begin:") {
				last = fmt.Sprintf("step %d (%s)", e.Step, e.Ev[6:])
			}
		}
		return ev.Result{}, fmt.Errorf("the child was killed by signal %v during/after %s: an operation changed the process state destructively", rr.Signal, last)
	}
	for _, e := range rr.Events {
		if e.Ev == "thread-died" {
			return ev.Result{}, fmt.Errorf("step %d: %s: the operation destroyed the thread it ran on (strict mode?) - the process state was changed", e.Step, e.Err)
		}
	}
	if !rr.Done() {
		return ev.Result{}, ev.Inconclusivef("child did not finish (exit %d, stderr %q)", rr.Exit, clip(rr.Stderr, 300))
	}
	snap := func(k int) (*c09Snap, error) {
		s := &c09Snap{st: map[int]kjob.ThreadStatus{}, denied: map[int][]bool{}}
		at := snapAt[k]
		for i := 0; i < c.Threads; i++ {
			pe := rr.Find(at+i, "probe")
			if len(pe) != 1 || len(pe[0].Results) != len(probeNames) {
				return nil, ev.Inconclusivef("probe vector of thread %d missing in snapshot %d", i, k)
			}
			v := make([]bool, len(probeNames))
			for j, r := range pe[0].Results {
				switch r.Errno {
				case 0:
				case 1:
					v[j] = true
				default:
					return nil, ev.Inconclusivef("probe returned errno %d", r.Errno)
				}
			}
			s.denied[i] = v
		}
		se := rr.Find(at+c.Threads, "status")
		if len(se) != 1 {
			return nil, ev.Inconclusivef("status missing in snapshot %d", k)
		}
		for _, x := range se[0].Status {
			if x.Role == "command" {
				s.st[x.Idx] = x
			} else {
				s.rt = append(s.rt, x)
			}
		}
		return s, nil
	}
	res := ev.Result{Classes: []string{fmt.Sprintf("uid:%d", c.Uid), "abi:" + map[string]string{"": "amd64", "386": "386"}[c.GOARCH]}}
	prev, err := snap(0)
	if err != nil {
		return res, err
	}
	for i := 0; i < c.Threads; i++ {
		if prev.st[i].Seccomp != 0 || prev.st[i].NNP != 0 {
			return res, ev.Inconclusivef("fresh child already has seccomp state")
		}
	}
	refusedThenMore := false
	sawRefusal := false
	enosys := c.InjectEnosys
	if c.InjectEnosys {
		res.Classes = append(res.Classes, "fault:seccomp-ENOSYS-by-strace-injection")
	}
	for k, op := range c.Ops {
		cur, err := snap(k + 1)
		if err != nil {
			return res, err
		}
		if sawRefusal {
			refusedThenMore = true
		}
		switch op.Op {
		case "enosys-fault":
			if c.InjectEnosys {
				break // seccomp(2) fails already; the filter-based fault cannot be installed and is not needed
			}
			// the injected filter is attached to every thread: nothing to check, the next snapshot is the new baseline
			if oe := rr.Find(opAt[k], "outer-enosys"); len(oe) != 1 || oe[0].Err != "" {
				return res, ev.Inconclusivef("could not inject the ENOSYS fault")
			}
			enosys = true
			res.Classes = append(res.Classes, "fault:seccomp-ENOSYS")
		case "supported":
			if enosys {
				// with the system call answering ENOSYS the probe may say either; it must still change nothing
				se := rr.Find(opAt[k], "supported")
				if len(se) != 1 {
					return res, ev.Inconclusivef("supported event missing")
				}
				for i := 0; i < c.Threads; i++ {
					if !c09SnapEqual(prev.st[i], cur.st[i]) || fmt.Sprint(prev.denied[i]) != fmt.Sprint(cur.denied[i]) {
						return res, fmt.Errorf("Supported() on thread %d changed the state of thread %d: %+v -> %+v", op.Thread, i, prev.st[i], cur.st[i])
					}
				}
				break
			}
			se := rr.Find(opAt[k], "supported")
			if len(se) != 1 {
				return res, ev.Inconclusivef("supported event missing")
			}
			if !se[0].Supported {
				return res, fmt.Errorf("Supported() is false on a kernel that supports seccomp filters (step %d)", k)
			}
			for i := 0; i < c.Threads; i++ {
				if !c09SnapEqual(prev.st[i], cur.st[i]) || fmt.Sprint(prev.denied[i]) != fmt.Sprint(cur.denied[i]) {
					return res, fmt.Errorf("Supported() on thread %d changed the state of thread %d: %+v -> %+v", op.Thread, i, prev.st[i], cur.st[i])
				}
			}
			res.Classes = append(res.Classes, "supported-probe")
			if k > 0 {
				res.Classes = append(res.Classes, "supported-after-a-load")
			}
		case "nested-load":
			le, ie := rr.Find(opAt[k], "load"), rr.Find(opAt[k], "inner-load")
			if len(le) != 1 {
				return res, ev.Inconclusivef("load event missing")
			}
			if le[0].Panic != "" || len(ie) == 1 && ie[0].Panic != "" {
				return res, fmt.Errorf("LoadFilter panicked: %s", le[0].Panic)
			}
			if len(ie) != 1 {
				return res, ev.Inconclusivef("the outer load never reached the point between preparation and installation (%s)", le[0].Err)
			}
			in := op
			in.Denied = op.Denied2
			desc := fmt.Sprintf("step %d: load on thread %d (denying %v), and while it was under way a complete load on thread %d (denying %v), nnp=%v, no flags, uid %d",
				k, op.Thread, deniedVector(op), op.Thread2, deniedVector(in), op.NNP, c.Uid)
			for _, x := range []struct {
				th   int
				ld   kjob.Event
				want []bool
				who  string
			}{{op.Thread, le[0], deniedVector(op), "interrupted"}, {op.Thread2, ie[0], deniedVector(in), "interrupting"}} {
				before, after := prev.st[x.th], cur.st[x.th]
				attached := after.Filters == before.Filters+1
				if after.Filters != before.Filters && !attached {
					return res, fmt.Errorf("%s: Seccomp_filters of the %s thread went from %d to %d", desc, x.who, before.Filters, after.Filters)
				}
				if x.ld.Nil && !attached {
					return res, fmt.Errorf("%s: the %s load returned nil, but no filter was attached to its thread", desc, x.who)
				}
				if !x.ld.Nil && attached {
					return res, fmt.Errorf("%s: the %s load returned an error (%s), but a filter was attached to its thread: the failed load left a filter behind", desc, x.who, x.ld.Err)
				}
				want := append([]bool(nil), prev.denied[x.th]...)
				if attached {
					for j := range want {
						want[j] = want[j] || x.want[j]
					}
				}
				if fmt.Sprint(cur.denied[x.th]) != fmt.Sprint(want) {
					return res, fmt.Errorf("%s: the %s load returned nil=%v (attached=%v), the decisions on its thread are %v, its own policy together with what was in force before demands %v",
						desc, x.who, x.ld.Nil, attached, cur.denied[x.th], want)
				}
				if attached {
					res.Classes = append(res.Classes, "overlapping-loads:"+x.who+"-attached")
				} else {
					sawRefusal = true
				}
			}
			for i := 0; i < c.Threads; i++ {
				if i != op.Thread && i != op.Thread2 && (!c09SnapEqual(prev.st[i], cur.st[i]) || fmt.Sprint(prev.denied[i]) != fmt.Sprint(cur.denied[i])) {
					return res, fmt.Errorf("%s changed the uninvolved thread %d: %+v -> %+v", desc, i, prev.st[i], cur.st[i])
				}
			}
		case "load":
			le := rr.Find(opAt[k], "load")
			if len(le) != 1 {
				return res, ev.Inconclusivef("load event missing")
			}
			ld := le[0]
			if ld.Panic != "" {
				return res, fmt.Errorf("LoadFilter panicked: %s", ld.Panic)
			}
			before, after := prev.st[op.Thread], cur.st[op.Thread]
			attached := after.Filters == before.Filters+1
			if after.Filters != before.Filters && !attached {
				return res, ev.Inconclusivef("filter count of the caller went from %d to %d", before.Filters, after.Filters)
			}
			desc := fmt.Sprintf("step %d: load(thread %d, nnp=%v, flags=%#x, policy %s) as uid %d", k, op.Thread, op.NNP, op.Flag, op.Kind, c.Uid)
			invalid := op.Kind == "unknown-name" || op.Kind == "bad-index" || op.Kind == "no-groups"
			if invalid {
				res.Classes = append(res.Classes, "pre-kernel-failure")
				if op.NNP {
					res.Classes = append(res.Classes, "pre-kernel-failure-with-nnp-requested")
				}
				if ld.Nil {
					return res, fmt.Errorf("%s: invalid policy, but LoadFilter returned nil", desc)
				}
				for i := 0; i < c.Threads; i++ {
					if !c09SnapEqual(prev.st[i], cur.st[i]) || fmt.Sprint(prev.denied[i]) != fmt.Sprint(cur.denied[i]) {
						return res, fmt.Errorf("%s failed before reaching the kernel, but the state of thread %d changed: %+v -> %+v", desc, i, prev.st[i], cur.st[i])
					}
				}
				for _, cap := range ld.Captures {
					if cap.Op == 1 {
						return res, fmt.Errorf("%s: invalid policy, but seccomp(2) was called to install a filter", desc)
					}
				}
				sawRefusal = true
				break
			}
			if ld.Nil && !attached {
				return res, fmt.Errorf("%s returned nil, but no filter was attached to the calling thread (Seccomp_filters %d -> %d, Seccomp %d)", desc, before.Filters, after.Filters, after.Seccomp)
			}
			if !attached {
				// the kernel declined: an error must have been returned (checked above), nothing may have changed but NNP of the caller
				sawRefusal = true
				why := "other"
				switch {
				case enosys:
					why = "ENOSYS-seccomp-unavailable"
				case op.Kind == "oversize":
					why = "EINVAL-oversize-program"
				case strings.HasPrefix(op.Kind, "len-"):
					why = "EINVAL-program-length-wraps-in-16-bits"
				case op.Flag&^0x3f != 0:
					why = "EINVAL-unknown-flag-bits"
				case c.Uid != 0 && !op.NNP && before.NNP == 0:
					why = "EACCES-no-privilege"
				case op.Flag&1 != 0:
					why = "thread-sync-refused"
				}
				res.Classes = append(res.Classes, "not-attached:"+why)
				for i := 0; i < c.Threads; i++ {
					p, q := prev.st[i], cur.st[i]
					if i == op.Thread && op.NNP {
						p.NNP = q.NNP // prctl ran before the refused seccomp call: permitted
					}
					if !c09SnapEqual(p, q) || fmt.Sprint(prev.denied[i]) != fmt.Sprint(cur.denied[i]) {
						return res, fmt.Errorf("%s was refused by the kernel (%s), but the state of thread %d changed: %+v -> %+v", desc, ld.Err, i, prev.st[i], cur.st[i])
					}
				}
				break
			}
			// attached
			res.Classes = append(res.Classes, "attached")
			if op.Kind == "allow-only" || op.Kind == "log-only" {
				res.Classes = append(res.Classes, "attached:policy-that-denies-nothing")
			}
			if !ld.Nil && op.Flag&0x8 != 0 {
				// SECCOMP_FILTER_FLAG_NEW_LISTENER (not a flag the library names): the kernel attaches the filter and returns a
				// descriptor, a positive number, which the library reports as a refused thread-sync. No claim.
				res.Classes = append(res.Classes, "attached-but-error-returned(listener-flag,no-claim)")
			} else if !ld.Nil {
				// otherwise the kernel either attaches a filter or reports an error, never both: a filter next to an error was
				// attached by a call whose result the library did not report ("failed loads leave none behind")
				return res, fmt.Errorf("%s returned an error (%s), but a filter was attached to the calling thread (Seccomp_filters %d -> %d): the failed load left a filter behind", desc, ld.Err, before.Filters, after.Filters)
			}
			want := deniedVector(op)
			for j := range want {
				want[j] = want[j] || prev.denied[op.Thread][j]
			}
			if fmt.Sprint(cur.denied[op.Thread]) != fmt.Sprint(want) {
				return res, fmt.Errorf("%s: filter attached, but the probe decisions on the calling thread are %v, want %v", desc, cur.denied[op.Thread], want)
			}
			if after.Seccomp != 2 {
				return res, fmt.Errorf("%s: filter attached, but Seccomp mode is %d", desc, after.Seccomp)
			}
			if op.NNP && after.NNP != 1 {
				return res, fmt.Errorf("%s: no_new_privs requested, but the bit is %d", desc, after.NNP)
			}
			if !op.NNP && after.NNP != before.NNP {
				return res, fmt.Errorf("%s: no_new_privs not requested, but the bit changed %d -> %d", desc, before.NNP, after.NNP)
			}
			if op.Flag&1 != 0 && ld.Nil {
				res.Classes = append(res.Classes, "thread-sync-attached")
				for i := 0; i < c.Threads; i++ {
					if cur.st[i].Seccomp != 2 || cur.st[i].Filters != after.Filters || fmt.Sprint(cur.denied[i]) != fmt.Sprint(want) {
						return res, fmt.Errorf("%s returned nil with thread-sync, but thread %d is not synchronised: %+v decisions %v (caller: %+v decisions %v)", desc, i, cur.st[i], cur.denied[i], after, want)
					}
				}
				for _, x := range cur.rt {
					if x.Seccomp != 2 || x.Filters != after.Filters {
						return res, fmt.Errorf("%s returned nil with thread-sync, but runtime thread %d has Seccomp=%d Seccomp_filters=%d", desc, x.Tid, x.Seccomp, x.Filters)
					}
				}
			} else if op.Flag&1 == 0 {
				for i := 0; i < c.Threads; i++ {
					if i != op.Thread && (!c09SnapEqual(prev.st[i], cur.st[i]) || fmt.Sprint(prev.denied[i]) != fmt.Sprint(cur.denied[i])) {
						return res, fmt.Errorf("%s without thread-sync changed thread %d: %+v -> %+v", desc, i, prev.st[i], cur.st[i])
					}
				}
			}
		}
		prev = cur
	}
	res.NonTrivial = refusedThenMore
	res.Sub = len(c.Ops)
	_ = gen.Mix
	_ = model.Ret
	return res, nil
}

func TestC09Histories(t *testing.T) {
	ev.Prop(t, "C09", "history", drawC09, checkC09)
}

// oversizeGroup: valid and assemblable, but far beyond the kernel's 4096-instruction limit whatever the lowering: 300
// different syscalls x 3 lists x 3 Equal conditions whose operands have two non-zero, pairwise different halves. Any
// correct program has to load and compare both halves of every condition (>= 4 instructions each): >= 10 800.
func oversizeGroup() spec.Group { return oversizeGroupFor("x86_64") }

var lengthPolicies = map[string]*spec.Policy{}

// policyOfLength builds a valid policy (errno for getppid, allow groups over the rest of the table repeated as often as
// needed) whose compiled program has exactly n instructions. The sizes are measured with the compiler under test only to
// aim; whether the aim was met is checked on the result.
func policyOfLength(archName string, n int) (spec.Policy, bool) {
	key := fmt.Sprintf("%s/%d", archName, n)
	if p, ok := lengthPolicies[key]; ok {
		if p == nil {
			return spec.Policy{}, false
		}
		return *p, true
	}
	lengthPolicies[key] = nil
	var rest []string
	for _, name := range gen.Universe(archName) {
		if !isProbe(name) {
			rest = append(rest, name)
		}
	}
	size := func(p *spec.Policy) int {
		cp, err, pan := compilePolicy(p)
		if err != nil || pan != nil {
			return -1
		}
		return len(cp.insts)
	}
	// groups of at most 200 names need no bridging jumps inside, so the size is linear in the number of groups and
	// names: measure the coefficients on three small policies, compose, and check the result with one compilation
	mk := func(groups, names, last int) spec.Policy {
		p := spec.Policy{Arch: archName, Default: actAllow, Groups: []spec.Group{{Action: actErrno, Names: []string{"getppid"}}}}
		for g := 0; g < groups; g++ {
			p.Groups = append(p.Groups, spec.Group{Action: actAllow, Names: rest[:names]})
		}
		if last > 0 {
			p.Groups = append(p.Groups, spec.Group{Action: actAllow, Names: rest[:last]})
		}
		return p
	}
	if len(rest) < 200 {
		return spec.Policy{}, false
	}
	// (measured on policies that are already beyond 255 instructions: the prologue is in its long form there)
	pa, pb, pc, pd := mk(2, 200, 0), mk(3, 200, 0), mk(2, 200, 10), mk(2, 200, 11)
	sa, sb, sc, sd := size(&pa), size(&pb), size(&pc), size(&pd)
	perName := sd - sc
	perGroup := sc - sa - 10*perName
	base := sa - 2*(sb-sa)
	if sa < 0 || sb < 0 || sc < 0 || sd < 0 || perName < 1 || perGroup < 1 || sb-sa != perGroup+200*perName {
		return spec.Policy{}, false
	}
	full := perGroup + 200*perName
	groups := (n - base) / full
	restInsns := n - base - groups*full
	last := 0
	switch {
	case restInsns == 0:
	case restInsns >= perGroup+perName && (restInsns-perGroup)%perName == 0 && (restInsns-perGroup)/perName <= 200:
		last = (restInsns - perGroup) / perName
	default:
		// give one name less to some full groups until the remainder fits (perName is 1 in practice)
		groups--
		restInsns += full
		if restInsns < perGroup+perName || (restInsns-perGroup)%perName != 0 {
			return spec.Policy{}, false
		}
		k := (restInsns - perGroup) / perName
		if k > 200 {
			// split over two groups
			p := mk(groups, 200, 0)
			k -= perGroup / perName
			if perGroup%perName != 0 || k < 2 || k > 400 {
				return spec.Policy{}, false
			}
			p.Groups = append(p.Groups, spec.Group{Action: actAllow, Names: rest[:k/2]}, spec.Group{Action: actAllow, Names: rest[:k-k/2]})
			if size(&p) == n {
				lengthPolicies[key] = &p
				return p, true
			}
			return spec.Policy{}, false
		}
		last = k
	}
	p := mk(groups, 200, last)
	if size(&p) != n {
		return spec.Policy{}, false
	}
	lengthPolicies[key] = &p
	return p, true
}

func oversizeGroupFor(archName string) spec.Group {
	g := spec.Group{Action: actErrno, Names: []string{"getppid"}}
	n := 0
	for _, name := range gen.Universe(archName) {
		if isProbe(name) {
			continue
		}
		if n >= 300 {
			break
		}
		n++
		for l := 0; l < 3; l++ {
			ce := spec.CondEntry{Name: name}
			for k := 0; k < 3; k++ {
				v := uint64(0x10000+n*64+l*8+k)<<32 | uint64(0x20000+n*64+l*8+k)
				ce.Conds = append(ce.Conds, spec.Cond{Arg: uint32((l + k) % 6), Op: "Equal", Val: v})
			}
			g.Conds = append(g.Conds, ce)
		}
	}
	return g
}
