package props

import (
	"bufio"
	"bytes"
	"context"
	"encoding/json"
	"fmt"
	"os"
	"os/exec"
	"path/filepath"
	"strings"
	"testing"
	"time"

	"pgregory.net/rapid"

	"verif/harness/internal/cbpf"
	"verif/harness/internal/ev"
	"verif/harness/internal/gen"
	"verif/harness/internal/kchild"
	"verif/harness/internal/model"
	"verif/harness/internal/oracle"
	"verif/harness/internal/spec"
)

// Compilation in other processes. What a policy compiles to is a function of the policy (and the syscall table) alone:
// not of the build that compiles it (linux/amd64 or linux/386: the byte order and word size the package detects for
// itself), and not of what the compiling process is allowed to do (an enclosing filter under which seccomp(2) or
// prctl(2) fail, as in a container or on an old kernel). A case is a corpus of policies and a configuration; a helper
// process of that configuration compiles the corpus and prints the programs; every program is then judged here against
// the reference decision (C01 corpus: names and all actions) or the 64-bit relation (C02 corpus: single conditions,
// events laid out little-endian as the kernel of this machine would), and must equal what this process compiles.

type childCompileCase struct {
	GOARCH string        `json:"goarch"` // amd64 / 386
	Outer  string        `json:"outer"`  // "" / seccomp-eperm / seccomp-enosys / prctl-eperm
	Corpus []spec.Policy `json:"corpus"`
	Seed   uint64        `json:"seed"`
}

type childProg struct {
	I     int         `json:"i"`
	Err   string      `json:"err"`
	Panic string      `json:"panic"`
	Prog  [][4]uint32 `json:"prog"`
	Done  bool        `json:"done"`
}

func compileInChild(goarch, outer string, corpus []spec.Policy) ([]childProg, error) {
	name := "digest"
	if goarch == "386" {
		name = "digest_386"
	}
	bin, err := kchild.Bin(name)
	if err != nil {
		return nil, err
	}
	dir, err := os.MkdirTemp(os.Getenv("VERIF_TMP"), "childcompile")
	if err != nil {
		return nil, err
	}
	defer os.RemoveAll(dir)
	path := filepath.Join(dir, "corpus.json")
	b, _ := json.Marshal(corpus)
	if err := os.WriteFile(path, b, 0o644); err != nil {
		return nil, err
	}
	ctx, cancel := context.WithTimeout(context.Background(), 120*time.Second)
	defer cancel()
	cmd := exec.CommandContext(ctx, bin, "-programs", path)
	cmd.Env = append(os.Environ(), "DIGEST_OUTER="+outer)
	var so, se bytes.Buffer
	cmd.Stdout, cmd.Stderr = &so, &se
	rerr := cmd.Run()
	var out []childProg
	sc := bufio.NewScanner(&so)
	sc.Buffer(make([]byte, 1<<20), 1<<28)
	done := false
	for sc.Scan() {
		var l childProg
		if err := json.Unmarshal(sc.Bytes(), &l); err != nil {
			return nil, fmt.Errorf("helper output: %v (%s)", err, clip(sc.Text(), 200))
		}
		if l.Done {
			done = true
			break
		}
		out = append(out, l)
	}
	if !done || len(out) != len(corpus) {
		return nil, fmt.Errorf("helper %s (outer %q) did not finish: %v, %d of %d programs, stderr %q, stdout %q", name, outer, rerr, len(out), len(corpus), clip(se.String(), 300), clip(so.String(), 200))
	}
	return out, nil
}

func checkChildCompile(prop string) func(json.RawMessage) (ev.Result, error) {
	return func(raw json.RawMessage) (ev.Result, error) {
		var c childCompileCase
		if err := json.Unmarshal(raw, &c); err != nil {
			return ev.Result{}, ev.Inconclusivef("bad case: %v", err)
		}
		if hostArchName() != "x86_64" {
			return ev.Result{}, ev.Inconclusivef("helper processes are set up for an x86_64 host")
		}
		progs, err := compileInChild(c.GOARCH, c.Outer, c.Corpus)
		if err != nil {
			return ev.Result{}, ev.Inconclusivef("%v", err)
		}
		where := fmt.Sprintf("a linux/%s process", c.GOARCH)
		if c.Outer != "" {
			where += " under an enclosing filter (" + c.Outer + ")"
		}
		res := ev.Result{Classes: []string{"other-process", "build:" + c.GOARCH, "outer:" + c.Outer}}
		events := 0
		for i := range c.Corpus {
			p := &c.Corpus[i]
			cp, lerr, pan := compilePolicy(p)
			if pan != nil {
				return res, fmt.Errorf("Assemble panicked: %v", pan)
			}
			ch := progs[i]
			if ch.Panic != "" {
				return res, fmt.Errorf("Assemble panicked in %s: %s", where, ch.Panic)
			}
			if (lerr != nil) != (ch.Err != "") {
				return res, fmt.Errorf("policy %d: this process: error %v; %s: error %q - acceptance depends on the process", i, lerr, where, ch.Err)
			}
			if lerr != nil {
				continue
			}
			if err := cp.encode(); err != nil {
				return res, fmt.Errorf("program does not encode: %v", err)
			}
			child := make([]cbpf.Raw, len(ch.Prog))
			for k, w := range ch.Prog {
				child[k] = cbpf.Raw{Op: uint16(w[0]), Jt: uint8(w[1]), Jf: uint8(w[2]), K: w[3]}
			}
			// decisions of the child's program (events laid out as this machine's kernel lays them out)
			cc := &compiled{raw: child, consts: cp.consts}
			evs := gen.Events(p, c.Seed+uint64(i), gen.EventOpts{Own: true, Foreign: true, X32: p.Arch == "x86_64", PerNr: 2, MaxNrs: 40, Consts: cp.consts})
			if err := runEvents(p, cc, evs, hostOrder(), nil); err != nil {
				return res, fmt.Errorf("policy %d compiled by %s: %v", i, where, err)
			}
			events += len(evs)
			if prop == "C05" {
				if err := cbpf.Verify(child); err != nil {
					return res, fmt.Errorf("policy %d compiled by %s: the program is no valid seccomp filter: %v", i, where, err)
				}
			}
			if len(child) != len(cp.raw) {
				return res, fmt.Errorf("policy %d: %d instructions here, %d in %s", i, len(cp.raw), len(child), where)
			}
			for k := range child {
				if child[k] != cp.raw[k] {
					return res, fmt.Errorf("policy %d: instruction %d is %+v here and %+v when compiled by %s", i, k, cp.raw[k], child[k], where)
				}
			}
		}
		res.NonTrivial = c.GOARCH != "amd64" || c.Outer != ""
		res.Sub = events
		_ = model.Ret
		_ = oracle.Const
		return res, nil
	}
}

// corpus for C01: names, all actions (log, trap, trace and data-carrying ones included), several groups
func childCorpusC01(n int, seed int) []spec.Policy {
	g := rapid.Custom(func(t *rapid.T) spec.Policy {
		prof := []gen.Profile{gen.Small, gen.NamesOnly, gen.Degenerate, gen.CondHeavy}[rapid.IntRange(0, 3).Draw(t, "profile")]
		return gen.Policy(t, drawArch(t), gen.Opts{Profile: prof, MaxInsns: 1200})
	})
	var out []spec.Policy
	for i := 0; i < n; i++ {
		out = append(out, g.Example(seed+i))
	}
	// every action as default and as group action, once
	acts := oracle.ActionList()
	for i, d := range acts {
		out = append(out, spec.Policy{Arch: "x86_64", Default: d, Groups: []spec.Group{{Action: acts[(i+1)%len(acts)], Names: []string{"read", "getpid"}}, {Action: acts[(i+2)%len(acts)], Names: []string{"write", "getpid"}}}})
	}
	return out
}

// corpus for C02: one single-condition entry per policy, all operations and argument positions, boundary operands
func childCorpusC02(seed uint64) []spec.Policy {
	var out []spec.Policy
	k := uint64(0)
	for _, a := range []string{"x86_64", "i386", "arm", "aarch64"} {
		for _, op := range spec.Ops {
			for arg := uint32(0); arg < 6; arg++ {
				k++
				v := gen.Boundary[gen.Mix(seed, k)%uint64(len(gen.Boundary))]
				if gen.Mix(seed, k+1000)%3 == 0 {
					v = gen.Mix(seed, k+2000)
				}
				out = append(out, spec.Policy{Arch: a, Default: c02Default, Groups: []spec.Group{{Action: c02Matched,
					Conds: []spec.CondEntry{{Name: c02Syscall, Conds: []spec.Cond{{Arg: arg, Op: op, Val: v}}}}}}})
			}
		}
	}
	return out
}

// corpus for C05/C07: valid policies and policies with one defect each, in particular argument indices whose validity
// a 32-bit build could judge differently (int conversions, wrapped offsets)
func childCorpusDefects(seed uint64) []spec.Policy {
	var out []spec.Policy
	idx := []uint32{0, 5, 6, 7, 8, 255, 65536, 0x0fffffff, 0x10000000, 0x1fffffff, 0x20000000, 0x20000003, 0x20000005, 0x20000006, 0x40000000, 0x40000003,
		0x7fffffff, 0x80000000, 0x80000005, 0x80000006, 0x80000007, 0xa0000000, 0xe0000001, 0xfffffffe, 0xffffffff}
	acts := oracle.ActionList()
	for k, a := range []string{"x86_64", "i386", "arm", "aarch64"} {
		for j, ix := range idx {
			op := spec.Ops[(j+k)%len(spec.Ops)]
			out = append(out, spec.Policy{Arch: a, Default: acts[(j+k)%7], Groups: []spec.Group{{Action: acts[(j+k+3)%7], Names: []string{"read"},
				Conds: []spec.CondEntry{{Name: "write", Conds: []spec.Cond{{Arg: uint32(j % 6), Op: "Equal", Val: 1}, {Arg: ix, Op: op, Val: gen.Mix(seed, uint64(j*4+k))}}}}}}})
		}
		u := gen.Universe(a)
		out = append(out,
			spec.Policy{Arch: a, Default: 0x12345678, Groups: []spec.Group{{Action: acts[0], Names: []string{"read"}}}},
			spec.Policy{Arch: a, Default: acts[6]},
			spec.Policy{Arch: a, Default: acts[6], Groups: []spec.Group{{Action: acts[3], Names: []string{"read", "no_such_syscall"}}}},
			spec.Policy{Arch: a, Default: acts[6], Groups: []spec.Group{{Action: acts[3], Names: []string{"read", "write", "read"}}}},
			spec.Policy{Arch: a, Default: acts[6], Groups: []spec.Group{{Action: acts[3], Names: []string{"read"}, Conds: []spec.CondEntry{{Name: "read", Conds: []spec.Cond{{Arg: 0, Op: "Equal", Val: 1}}}}}}},
			spec.Policy{Arch: a, Default: acts[6], Groups: []spec.Group{{Action: acts[3], Conds: []spec.CondEntry{{Name: "read", Conds: []spec.Cond{{Arg: 0, Op: "Approximately", Val: 1}}}}}}},
			spec.Policy{Arch: a, Default: acts[1], Groups: []spec.Group{{Action: acts[6], Names: gen.Subset(u, seed+uint64(k), 300)}, {Action: acts[3], Names: gen.Subset(u, seed+uint64(k)+9, 200)}}},
		)
	}
	return out
}

var childConfigs = []struct{ goarch, outer string }{
	{"amd64", ""}, {"386", ""}, {"amd64", "seccomp-eperm"}, {"amd64", "seccomp-enosys"}, {"386", "seccomp-eperm"}, {"amd64", "prctl-eperm"},
}

func TestC01OtherProcesses(t *testing.T) {
	check := checkChildCompile("C01")
	ev.Register("C01", "other-process", check)
	seed := int(shardSeed() % 1000000)
	for k, cfg := range childConfigs {
		c := childCompileCase{GOARCH: cfg.goarch, Outer: cfg.outer, Corpus: childCorpusC01(ev.Scale(40, 400), seed+1000*k), Seed: uint64(seed)}
		if !ev.CheckOne(t, "C01", "other-process", c, check) {
			return
		}
	}
}

func TestC02OtherProcesses(t *testing.T) {
	check := checkChildCompile("C02")
	ev.Register("C02", "other-process", check)
	seed := shardSeed()
	for k, cfg := range childConfigs {
		n := ev.Scale(1, 8)
		var corpus []spec.Policy
		for r := 0; r < n; r++ {
			corpus = append(corpus, childCorpusC02(seed+uint64(100*k+r))...)
		}
		c := childCompileCase{GOARCH: cfg.goarch, Outer: cfg.outer, Corpus: corpus, Seed: seed}
		if !ev.CheckOne(t, "C02", "other-process", c, check) {
			return
		}
	}
}

// ---- C14: the parsers in other processes ----

type c14ChildCase struct {
	GOARCH string `json:"goarch"`
	Outer  string `json:"outer"`
}

// c14ParseLines renders, from the vendored constants, what `digest -parse` has to print.
func c14ParseLines() []string {
	var out []string
	title := func(s string) string {
		if s == "" {
			return s
		}
		return strings.ToUpper(s[:1]) + s[1:]
	}
	for _, n := range []string{"kill_thread", "kill_process", "trap", "errno", "trace", "log", "allow", "nope", "permit", ""} {
		for _, in := range []string{n, strings.ToUpper(n), title(n)} {
			v, ok := oracle.Actions()[n]
			if !ok {
				out = append(out, fmt.Sprintf("action %q = error", in))
				continue
			}
			out = append(out, fmt.Sprintf("action %q = %#x printed %q back %#x true marshalled %q back %#x true", in, v, n, v, n, v))
		}
	}
	for _, n := range []string{"Equal", "NotEqual", "GreaterThan", "LessThan", "GreaterOrEqual", "LessOrEqual", "BitsSet", "BitsNotSet", "Nope"} {
		for _, in := range []string{n, strings.ToUpper(n), strings.ToLower(n)} {
			if n == "Nope" {
				out = append(out, fmt.Sprintf("operation %q = error", in))
				continue
			}
			out = append(out, fmt.Sprintf("operation %q = %s", in, n))
		}
	}
	return append(out, "done")
}

func checkC14Child(raw json.RawMessage) (ev.Result, error) {
	var c c14ChildCase
	if err := json.Unmarshal(raw, &c); err != nil {
		return ev.Result{}, ev.Inconclusivef("bad case: %v", err)
	}
	name := "digest"
	if c.GOARCH == "386" {
		name = "digest_386"
	}
	bin, err := kchild.Bin(name)
	if err != nil {
		return ev.Result{}, ev.Inconclusivef("%v", err)
	}
	ctx, cancel := context.WithTimeout(context.Background(), 60*time.Second)
	defer cancel()
	cmd := exec.CommandContext(ctx, bin, "-parse")
	cmd.Env = append(os.Environ(), "DIGEST_OUTER="+c.Outer)
	out, err := cmd.Output()
	if err != nil {
		return ev.Result{}, ev.Inconclusivef("helper: %v (%s)", err, clip(string(out), 300))
	}
	got := strings.Split(strings.TrimSpace(string(out)), "\n")
	want := c14ParseLines()
	where := fmt.Sprintf("a linux/%s process", c.GOARCH)
	if c.Outer != "" {
		where += " under an enclosing filter (" + c.Outer + ")"
	}
	if len(got) != len(want) {
		return ev.Result{}, ev.Inconclusivef("helper printed %d lines, expected %d", len(got), len(want))
	}
	for i := range want {
		if got[i] != want[i] {
			return ev.Result{}, fmt.Errorf("in %s the parsers answer\n  %s\nthe documented constants demand\n  %s", where, got[i], want[i])
		}
	}
	return ev.Result{Classes: []string{"parse:other-process", "build:" + c.GOARCH, "outer:" + c.Outer}, NonTrivial: c.Outer != "" || c.GOARCH != "amd64", Sub: len(want)}, nil
}

func TestC14OtherProcesses(t *testing.T) {
	ev.Register("C14", "parse-other-process", checkC14Child)
	for _, cfg := range childConfigs {
		if !ev.CheckOne(t, "C14", "parse-other-process", c14ChildCase{GOARCH: cfg.goarch, Outer: cfg.outer}, checkC14Child) {
			return
		}
	}
}

func TestC05OtherProcesses(t *testing.T) {
	check := checkChildCompile("C05")
	ev.Register("C05", "other-process", check)
	seed := shardSeed()
	for k, cfg := range childConfigs {
		corpus := append(childCorpusDefects(seed+uint64(k)), childCorpusC01(ev.Scale(20, 200), int(seed%100000)+2000*k)...)
		if !ev.CheckOne(t, "C05", "other-process", childCompileCase{GOARCH: cfg.goarch, Outer: cfg.outer, Corpus: corpus, Seed: seed}, check) {
			return
		}
	}
}

func TestC07OtherProcesses(t *testing.T) {
	check := checkChildCompile("C07")
	ev.Register("C07", "other-process", check)
	seed := shardSeed()
	for k, cfg := range childConfigs {
		corpus := childCorpusDefects(seed + uint64(10*k))
		if !ev.CheckOne(t, "C07", "other-process", childCompileCase{GOARCH: cfg.goarch, Outer: cfg.outer, Corpus: corpus, Seed: seed}, check) {
			return
		}
	}
}

// C04: the prologue (architecture check, x32 guard) compiled by other builds and in hostile processes; policies for the
// x86_64 and x32 tables dominate the corpus, events are foreign-architecture and x32-bit ones (see checkChildCompile).
func TestC04OtherProcesses(t *testing.T) {
	check := checkChildCompile("C04")
	ev.Register("C04", "other-process", check)
	seed := int(shardSeed() % 1000000)
	g := rapid.Custom(func(t *rapid.T) spec.Policy {
		a := []string{"x86_64", "x86_64", "x86_64", "i386", "arm", "aarch64"}[rapid.IntRange(0, 5).Draw(t, "arch")]
		prof := []gen.Profile{gen.Small, gen.NamesOnly, gen.Degenerate, gen.Edge255}[rapid.IntRange(0, 3).Draw(t, "profile")]
		return gen.Policy(t, a, gen.Opts{Profile: prof, MaxInsns: 1200})
	})
	for k, cfg := range childConfigs {
		var corpus []spec.Policy
		for i := 0; i < ev.Scale(40, 400); i++ {
			corpus = append(corpus, g.Example(seed+5000*k+i))
		}
		if !ev.CheckOne(t, "C04", "other-process", childCompileCase{GOARCH: cfg.goarch, Outer: cfg.outer, Corpus: corpus, Seed: uint64(seed)}, check) {
			return
		}
	}
}
