package props

import (
	"bufio"
	"encoding/json"
	"fmt"
	"os"
	"path/filepath"
	"strings"
	"testing"

	"verif/harness/internal/ev"
)

// C16, size of the text: "never silently truncated" has no size clause. A well-formed listing of several hundred MiB
// (real dumps of large binaries reach that) ends with a function that contains one canonical site; the extraction
// reports that site, or an error - not a result that stops somewhere before the end.

type c16HugeCase struct {
	MiB int `json:"mib"`
}

func checkC16Huge(raw json.RawMessage) (ev.Result, error) {
	var c c16HugeCase
	if err := json.Unmarshal(raw, &c); err != nil {
		return ev.Result{}, ev.Inconclusivef("bad case: %v", err)
	}
	if c.MiB < 1 || c.MiB > 4200 {
		return ev.Result{}, ev.Inconclusivef("ill-formed case")
	}
	dir, err := os.MkdirTemp(os.Getenv("VERIF_TMP"), "c16huge")
	if err != nil {
		return ev.Result{}, ev.Inconclusivef("%v", err)
	}
	defer os.RemoveAll(dir)
	path := filepath.Join(dir, "huge.txt")
	f, err := os.Create(path)
	if err != nil {
		return ev.Result{}, ev.Inconclusivef("%v", err)
	}
	w := bufio.NewWriterSize(f, 1<<20)
	line := func(n int, text string) string { return fmt.Sprintf("  file.go:%d\t\t0x%x\t\t%08x\t\t%s\t\n", n, 0x400000+n, n*7, text) }
	// first function: exit (60), so that an empty result is not mistaken for a partial one
	w.WriteString("TEXT main.first(SB) /src/file.go\n" + line(1, "MOVL $0x3c, AX") + line(2, "SYSCALL") + line(3, "RET"))
	var blk strings.Builder
	blk.WriteString("TEXT main.filler(SB) /src/file.go\n")
	for blk.Len() < 1<<20 {
		blk.WriteString(line(4, "NOPL"))
	}
	block := blk.String()
	written := 0
	for written < c.MiB<<20 {
		if _, err := w.WriteString(block); err != nil {
			f.Close()
			return ev.Result{}, ev.Inconclusivef("cannot write a listing of %d MiB: %v", c.MiB, err)
		}
		written += len(block)
	}
	// last function: getppid (110)
	w.WriteString("TEXT main.last(SB) /src/file.go\n" + line(5, "MOVL $0x6e, AX") + line(6, "SYSCALL") + line(7, "RET"))
	if err := w.Flush(); err != nil {
		f.Close()
		return ev.Result{}, ev.Inconclusivef("cannot write a listing of %d MiB: %v", c.MiB, err)
	}
	f.Close()
	r, eerr, pan := extract("x86_64", path)
	res := ev.Result{Classes: []string{fmt.Sprintf("listing-of-%d-MiB", c.MiB)}, Sub: 1, NonTrivial: true}
	if pan != nil {
		return res, fmt.Errorf("extraction misbehaved on a well-formed listing of %d MiB: %v", c.MiB, pan)
	}
	if eerr != nil {
		res.Classes = append(res.Classes, "huge-listing:error-reported")
		return res, nil
	}
	first, last := false, false
	for _, s := range r {
		if s.Num == 60 {
			first = true
		}
		if s.Num == 110 {
			last = true
		}
	}
	if !last {
		return res, fmt.Errorf("a well-formed listing of %d MiB (one site in its first function, one in its last): no error, but the site of the last function is not in the result %v (first function's site found: %v): the text was not read to the end", c.MiB, keys(r), first)
	}
	res.Classes = append(res.Classes, "huge-listing:read-to-the-end")
	return res, nil
}

func TestC16HugeListing(t *testing.T) {
	ev.Register("C16", "huge-listing", checkC16Huge)
	sizes := []int{257}
	if ev.Scale(0, 1) == 1 {
		sizes = []int{257, 1025, 2049}
	}
	for _, n := range sizes {
		if !ev.CheckOne(t, "C16", "huge-listing", c16HugeCase{MiB: n}, checkC16Huge) {
			return
		}
	}
}
