package props

import (
	"testing"

	"verif/harness/internal/ev"
)

// Native coverage-guided fuzz targets (thorough tier): the same properties as
// the rapid tests, driven by go's fuzzer through rapid.MakeFuzz.

func FuzzC06Labels(f *testing.F)     { ev.Fuzz(f, "C06", "labelprog", drawLabelProgram, checkC06) }
func FuzzC07Validation(f *testing.F) { ev.Fuzz(f, "C07", "policy", drawC07, checkC07) }
func FuzzC16Extraction(f *testing.F) { ev.Fuzz(f, "C16", "extract", drawC16, checkC16) }
func FuzzC03Conditions(f *testing.F) { ev.Fuzz(f, "C03", "policy-events", drawC03, checkC03) }
func FuzzC05Programs(f *testing.F)   { ev.Fuzz(f, "C05", "program", drawC05, checkC05) }
