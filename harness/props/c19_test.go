package props

import (
	"bytes"
	"context"
	"encoding/json"
	"errors"
	"fmt"
	"go/ast"
	"go/parser"
	"go/token"
	"os"
	"os/exec"
	"path/filepath"
	"sort"
	"strings"
	"sync"
	"testing"
	"time"

	seccomp "github.com/elastic/go-seccomp-bpf"
	"github.com/elastic/go-seccomp-bpf/arch"

	"verif/harness/crossassert"
	"verif/harness/internal/ev"
	"verif/harness/internal/kchild"
	"verif/harness/internal/oracle"
	"verif/harness/internal/spec"
)

// C19 — constants and stubs are consistent across build targets.

type c19Target struct {
	GOOS   string `json:"goos"`
	GOARCH string `json:"goarch"`
}

func harnessDir() string {
	wd, _ := os.Getwd() // .../harness/props
	return filepath.Dir(wd)
}

func goCmd(env []string, args ...string) ([]byte, error) {
	cmd := exec.Command("go", args...)
	cmd.Dir = harnessDir()
	cmd.Env = append(os.Environ(), "GOFLAGS=-mod=mod", "GOPROXY=off", "GOSUMDB=off", "GOTOOLCHAIN=local", "GOWORK=off", "CGO_ENABLED=0")
	cmd.Env = append(cmd.Env, env...)
	return cmd.CombinedOutput()
}

func modfileArg() []string {
	if m := os.Getenv("VERIF_MODFILE"); m != "" {
		return []string{"-modfile=" + m}
	}
	return nil
}

// checkC19Target: the library builds for the target => the assertion package,
// which only compiles when every constant has its UAPI value, builds too.
func checkC19Target(raw json.RawMessage) (ev.Result, error) {
	var c c19Target
	if err := json.Unmarshal(raw, &c); err != nil {
		return ev.Result{}, ev.Inconclusivef("bad case: %v", err)
	}
	env := []string{"GOOS=" + c.GOOS, "GOARCH=" + c.GOARCH}
	res := ev.Result{Classes: []string{"target", "goos:" + c.GOOS}}
	args := append([]string{"build", "-tags", "verif"}, modfileArg()...)
	out, err := goCmd(env, append(args, "github.com/elastic/go-seccomp-bpf", "github.com/elastic/go-seccomp-bpf/arch")...)
	if err != nil {
		// the statement quantifies over targets on which the library builds
		res.Classes = append(res.Classes, "library-does-not-build(no-claim)")
		ev.Note("C19", "library does not build for %s/%s: %s", c.GOOS, c.GOARCH, clip(string(out), 300))
		return res, nil
	}
	out, err = goCmd(env, append(args, "./crossassert")...)
	if err != nil {
		return res, fmt.Errorf("on %s/%s a constant exposed by the library differs from the Linux UAPI value (the assertion package does not compile):\n%s", c.GOOS, c.GOARCH, clip(string(out), 1500))
	}
	// every exported Action* / FilterFlag* constant found in the source (also ones the fixed assertion package does not
	// know yet) against the UAPI value, where the vendored tables have one
	if out, n, err := buildDynAssert(c.GOOS, c.GOARCH); err != nil && out != "" {
		return res, fmt.Errorf("on %s/%s an exported constant of the library differs from the Linux UAPI value (generated assertions for the %d constants found in the source do not compile):\n%s", c.GOOS, c.GOARCH, n, clip(out, 1500))
	} else if err == nil && n > 0 {
		res.Classes = append(res.Classes, "constants-discovered-in-the-source")
	}
	// without the verification tag the library must build as well (the hooks must not be load-bearing)
	args = append([]string{"build"}, modfileArg()...)
	if out, err := goCmd(env, append(args, "github.com/elastic/go-seccomp-bpf")...); err != nil {
		return res, ev.Inconclusivef("library builds with the verif tag but not without on %s/%s: %s", c.GOOS, c.GOARCH, clip(string(out), 400))
	}
	if c.GOOS != "linux" {
		res.Classes = append(res.Classes, "non-linux-target")
	}
	if c.GOOS != "linux" && c.GOOS != "android" { // (android is Linux: the linux build constraint holds there)
		// the loader functions of this target, as selected by the go tool, do not call into the operating system
		calls, inspected, serr := stubCallsOnTarget(c.GOOS, c.GOARCH)
		if serr != nil {
			return res, ev.Inconclusivef("loader stubs of %s/%s: %v", c.GOOS, c.GOARCH, serr)
		}
		if len(calls) > 0 {
			return res, fmt.Errorf("on %s/%s the loader functions are not stubs: %s", c.GOOS, c.GOARCH, strings.Join(calls, "; "))
		}
		if inspected >= 3 {
			res.Classes = append(res.Classes, "non-linux-loader-functions-inspected")
		}
	}
	if c.GOOS == "linux" && strings.HasPrefix(c.GOARCH, "mips") {
		res.Classes = append(res.Classes, "linux-mips-errno-table")
	}
	// targets without syscall tables: the call Assemble makes there fails with the unsupported error
	info, gerr := arch.GetInfo(c.GOARCH)
	hasTables := map[string]bool{"386": true, "amd64": true, "arm": true, "arm64": true}[c.GOARCH]
	if hasTables {
		if gerr != nil || info == nil {
			return res, fmt.Errorf("GOARCH %s has syscall tables but GetInfo fails: %v", c.GOARCH, gerr)
		}
		res.Classes = append(res.Classes, "goarch-with-tables")
	} else {
		if gerr == nil {
			return res, fmt.Errorf("GOARCH %s has no syscall tables but arch.GetInfo(%q), which Policy.Assemble calls on such a host, succeeds", c.GOARCH, c.GOARCH)
		}
		res.Classes = append(res.Classes, "goarch-without-tables")
	}
	res.NonTrivial = !(c.GOOS == "linux" && c.GOARCH == "amd64")
	return res, nil
}

func distList() ([]c19Target, error) {
	out, err := goCmd(nil, "tool", "dist", "list")
	if err != nil {
		return nil, fmt.Errorf("go tool dist list: %v: %s", err, out)
	}
	var ts []c19Target
	for _, l := range strings.Fields(string(out)) {
		p := strings.SplitN(l, "/", 2)
		if len(p) == 2 {
			ts = append(ts, c19Target{p[0], p[1]})
		}
	}
	sort.Slice(ts, func(i, j int) bool { return ts[i].GOOS+"/"+ts[i].GOARCH < ts[j].GOOS+"/"+ts[j].GOARCH })
	return ts, nil
}

func TestC19CrossBuild(t *testing.T) {
	ev.Register("C19", "target", checkC19Target)
	// the literals of the assertion package are the vendored UAPI values
	lits := map[string]uint64{
		"SECCOMP_RET_KILL_THREAD": crossassert.WantKillThread, "SECCOMP_RET_KILL_PROCESS": crossassert.WantKillProcess,
		"SECCOMP_RET_TRAP": crossassert.WantTrap, "SECCOMP_RET_ERRNO": crossassert.WantErrno, "SECCOMP_RET_TRACE": crossassert.WantTrace,
		"SECCOMP_RET_LOG": crossassert.WantLog, "SECCOMP_RET_ALLOW": crossassert.WantAllow, "SECCOMP_RET_USER_NOTIF": crossassert.WantUserNotif,
		"SECCOMP_FILTER_FLAG_TSYNC": crossassert.WantFlagTSync, "SECCOMP_FILTER_FLAG_LOG": crossassert.WantFlagLog, "EPERM": crossassert.WantEPERM,
		"ENOSYS": crossassert.WantENOSYS, "PR_SET_NO_NEW_PRIVS": crossassert.WantPrSetNoNewPrivs, "SECCOMP_SET_MODE_STRICT": crossassert.WantSetModeStrict,
		"SECCOMP_SET_MODE_FILTER": crossassert.WantSetModeFilter, "__X32_SYSCALL_BIT": crossassert.WantX32Bit,
	}
	for k, v := range lits {
		if uint64(oracle.Const(k)) != v {
			ev.MarkInconclusive("C19", "assertion package literal for %s (%d) differs from the vendored header value (%d)", k, v, oracle.Const(k))
			return
		}
	}
	targets, err := distList()
	if err != nil {
		ev.MarkInconclusive("C19", "%v", err)
		return
	}
	type result struct {
		t   c19Target
		res ev.Result
		err error
	}
	results := make([]result, len(targets))
	var wg sync.WaitGroup
	sem := make(chan struct{}, 16)
	for i, tg := range targets {
		wg.Add(1)
		go func(i int, tg c19Target) {
			defer wg.Done()
			sem <- struct{}{}
			defer func() { <-sem }()
			raw, _ := json.Marshal(tg)
			r, err := checkC19Target(raw)
			results[i] = result{tg, r, err}
		}(i, tg)
	}
	wg.Wait()
	built := 0
	for _, r := range results {
		r := r
		ok := ev.CheckOne(t, "C19", "target", r.t, func(json.RawMessage) (ev.Result, error) { return r.res, r.err })
		if !ok {
			return
		}
		built++
	}
	ev.Exhaustive("C19", "GOOS/GOARCH pairs of `go tool dist list`", built)
}

// ---- transplant: run the non-Linux sources on the host ----

type c19TransplantCase struct {
	Corpus []json.RawMessage `json:"corpus"` // spec.Policy values
}

var linuxOnlyMarkers = []string{"go:build linux", "&& linux", "linux &&", "+build linux", ",linux"}

// buildTransplant creates the scratch module and returns the binary path.
func buildTransplant(dir string) (string, error) {
	repo := os.Getenv("VERIF_REPO")
	if repo == "" {
		repo = "/repo"
	}
	stubDir := filepath.Join(dir, "seccompstub")
	unixDir := filepath.Join(dir, "unixother")
	for _, d := range []string{stubDir, unixDir} {
		if err := os.MkdirAll(d, 0o755); err != nil {
			return "", err
		}
	}
	neutralise := func(src string) (string, bool) {
		var out []string
		linuxOnly := false
		for _, l := range strings.Split(src, "\n") {
			tl := strings.TrimSpace(l)
			if strings.HasPrefix(tl, "//go:build") || strings.HasPrefix(tl, "// +build") {
				neg := strings.Contains(tl, "!linux")
				if !neg {
					for _, m := range linuxOnlyMarkers {
						if strings.Contains(tl, m) {
							linuxOnly = true
						}
					}
				}
				continue // constraint neutralised
			}
			out = append(out, l)
		}
		return strings.Join(out, "\n"), linuxOnly
	}
	copied := 0
	entries, err := os.ReadDir(repo)
	if err != nil {
		return "", err
	}
	for _, e := range entries {
		n := e.Name()
		if e.IsDir() || !strings.HasSuffix(n, ".go") || strings.HasSuffix(n, "_test.go") || strings.HasSuffix(n, "_linux.go") {
			continue
		}
		b, err := os.ReadFile(filepath.Join(repo, n))
		if err != nil {
			return "", err
		}
		src, linuxOnly := neutralise(string(b))
		if linuxOnly {
			continue
		}
		src = strings.ReplaceAll(src, `"github.com/elastic/go-seccomp-bpf/internal/unix"`, `"transplant/unixother"`)
		if err := os.WriteFile(filepath.Join(stubDir, n), []byte(src), 0o644); err != nil {
			return "", err
		}
		copied++
	}
	uentries, err := os.ReadDir(filepath.Join(repo, "internal", "unix"))
	if err != nil {
		return "", err
	}
	for _, e := range uentries {
		n := e.Name()
		if !strings.HasSuffix(n, ".go") || strings.HasSuffix(n, "_linux.go") || strings.HasSuffix(n, "_test.go") {
			continue
		}
		b, _ := os.ReadFile(filepath.Join(repo, "internal", "unix", n))
		src, linuxOnly := neutralise(string(b))
		if linuxOnly {
			continue
		}
		if err := os.WriteFile(filepath.Join(unixDir, strings.TrimSuffix(n, ".go")+"_x.go"), []byte(src), 0o644); err != nil {
			return "", err
		}
	}
	mainSrc, err := os.ReadFile("testdata/transplant_main.go.txt")
	if err != nil {
		return "", err
	}
	if err := os.WriteFile(filepath.Join(dir, "main.go"), mainSrc, 0o644); err != nil {
		return "", err
	}
	gomod := "module transplant\n\ngo 1.23\n\nrequire (\n\tgithub.com/elastic/go-seccomp-bpf v0.0.0\n\tgolang.org/x/net v0.24.0\n\tgolang.org/x/sys v0.19.0\n)\n\nreplace github.com/elastic/go-seccomp-bpf => " + repo + "\n"
	if err := os.WriteFile(filepath.Join(dir, "go.mod"), []byte(gomod), 0o644); err != nil {
		return "", err
	}
	sum, _ := os.ReadFile(filepath.Join(harnessDir(), "go.sum"))
	os.WriteFile(filepath.Join(dir, "go.sum"), sum, 0o644)
	bin := filepath.Join(dir, "transplantbin")
	cmd := exec.Command("go", "build", "-tags", "verif", "-o", bin, ".")
	cmd.Dir = dir
	cmd.Env = append(os.Environ(), "GOFLAGS=-mod=mod", "GOPROXY=off", "GOSUMDB=off", "GOTOOLCHAIN=local", "GOWORK=off", "CGO_ENABLED=0")
	if out, err := cmd.CombinedOutput(); err != nil {
		return "", fmt.Errorf("transplant does not build (%d files copied): %v\n%s", copied, err, clip(string(out), 1500))
	}
	return bin, nil
}

func checkC19Transplant(raw json.RawMessage) (ev.Result, error) {
	var c c19TransplantCase
	if err := json.Unmarshal(raw, &c); err != nil {
		return ev.Result{}, ev.Inconclusivef("bad case: %v", err)
	}
	dir, err := os.MkdirTemp(os.Getenv("VERIF_TMP"), "transplant")
	if err != nil {
		return ev.Result{}, ev.Inconclusivef("%v", err)
	}
	defer os.RemoveAll(dir)
	bin, err := buildTransplant(dir)
	if err != nil {
		return ev.Result{}, ev.Inconclusivef("%v", err)
	}
	corpusPath := filepath.Join(dir, "corpus.json")
	b, _ := json.Marshal(c.Corpus)
	os.WriteFile(corpusPath, b, 0o644)
	tracePath := filepath.Join(dir, "trace.txt")
	var out []byte
	useStrace := true
	if _, err := exec.LookPath("strace"); err != nil {
		useStrace = false
	}
	if useStrace {
		cmd := exec.Command("strace", "-f", "-o", tracePath, bin, corpusPath)
		// no asynchronous preemption signals and no garbage collection between the markers
		cmd.Env = append(os.Environ(), "GODEBUG=asyncpreemptoff=1", "GOGC=off")
		out, err = cmd.Output()
	} else {
		out, err = exec.Command(bin, corpusPath).Output()
	}
	if err != nil {
		return ev.Result{}, ev.Inconclusivef("transplant run failed: %v (%s)", err, clip(string(out), 300))
	}
	var r struct {
		Compared   int               `json:"compared"`
		Mismatches []string          `json:"mismatches"`
		Supported  bool              `json:"supported"`
		Before     map[string]string `json:"before"`
		After      map[string]string `json:"after"`
		Loads      int               `json:"loads"`
		Panics     []string          `json:"panics"`
	}
	if err := json.Unmarshal(out, &r); err != nil {
		return ev.Result{}, ev.Inconclusivef("transplant output: %v (%s)", err, clip(string(out), 300))
	}
	if len(r.Mismatches) > 0 {
		return ev.Result{}, fmt.Errorf("the non-Linux source files compile policies differently from the Linux build: %s", strings.Join(r.Mismatches[:minInt(3, len(r.Mismatches))], "; "))
	}
	if len(r.Panics) > 0 {
		return ev.Result{}, fmt.Errorf("non-Linux loader stub panicked: %v", r.Panics)
	}
	if r.Supported {
		return ev.Result{}, fmt.Errorf("the non-Linux Supported() reports seccomp as supported")
	}
	for k, v := range r.Before {
		if r.After[k] != v {
			return ev.Result{}, fmt.Errorf("non-Linux loader stubs changed process state: %s %s -> %s", k, v, r.After[k])
		}
	}
	res := ev.Result{Classes: []string{"transplant"}, Sub: r.Compared + r.Loads, NonTrivial: true}
	if useStrace {
		tr, _ := os.ReadFile(tracePath)
		lines := strings.Split(string(tr), "\n")
		for _, l := range lines {
			f := strings.Fields(l)
			if len(f) >= 2 && (strings.HasPrefix(f[1], "seccomp(") || strings.HasPrefix(f[1], "prctl(")) {
				return ev.Result{}, fmt.Errorf("non-Linux loader stubs issue a system call: %s", l)
			}
		}
		// between the two markers the thread that calls the stubs must not enter the kernel at all
		tid, inside, sawEnd := "", false, false
		for _, l := range lines {
			f := strings.Fields(l)
			if len(f) < 2 {
				continue
			}
			if strings.HasPrefix(f[1], "close(100001") {
				tid, inside = f[0], true
				continue
			}
			if inside && f[0] == tid {
				if strings.HasPrefix(f[1], "close(100002") {
					inside, sawEnd = false, true
					continue
				}
				if strings.HasPrefix(f[1], "---") || strings.HasPrefix(f[1], "+++") {
					continue // signal notes are not system calls of the stubs
				}
				if f[1] == "<..." && len(f) > 2 && f[2] == "close" {
					continue // the second half of a marker call that strace printed in two parts
				}
				return ev.Result{}, fmt.Errorf("a non-Linux loader stub performed a system call: %s", strings.Join(f[1:], " "))
			}
		}
		if !sawEnd {
			return ev.Result{}, ev.Inconclusivef("marker system calls not found in the trace")
		}
		res.Classes = append(res.Classes, "transplant-under-strace", "no-system-call-between-markers")
	}
	return res, nil
}

func minInt(a, b int) int {
	if a < b {
		return a
	}
	return b
}

func TestC19Transplant(t *testing.T) {
	ev.Register("C19", "transplant", checkC19Transplant)
	seed := int(shardSeed() % 1000000)
	var c c19TransplantCase
	for _, p := range corpusPolicies(ev.Scale(150, 1500), seed) {
		b, _ := json.Marshal(p)
		c.Corpus = append(c.Corpus, b)
	}
	// x86_64 policies with errno actions: EPERM and ENOSYS constants matter
	for _, hand := range []string{
		`{"arch":"x86_64","default":327680,"groups":[{"action":327680,"names":["read","write"]},{"action":2147418112,"conds":[{"name":"openat","conds":[{"arg":1,"op":"BitsSet","val":64}]}]}]}`,
		`{"arch":"i386","default":2147418112,"groups":[{"action":327680,"names":["execve"]}]}`,
	} {
		c.Corpus = append(c.Corpus, json.RawMessage(hand))
	}
	ev.CheckOne(t, "C19", "transplant", c, checkC19Transplant)
}

// ---- the same corpus compiled by a linux/386 build and a linux/amd64 build ----

type c19ArchDigestCase struct {
	Corpus []spec.Policy `json:"corpus"`
}

func checkC19ArchDigest(raw json.RawMessage) (ev.Result, error) {
	var c c19ArchDigestCase
	if err := json.Unmarshal(raw, &c); err != nil {
		return ev.Result{}, ev.Inconclusivef("bad case: %v", err)
	}
	dir, err := os.MkdirTemp(os.Getenv("VERIF_TMP"), "c19digest")
	if err != nil {
		return ev.Result{}, ev.Inconclusivef("%v", err)
	}
	defer os.RemoveAll(dir)
	path := filepath.Join(dir, "corpus.json")
	b, _ := json.Marshal(c.Corpus)
	os.WriteFile(path, b, 0o644)
	digests, crashed := map[string]string{}, map[string]string{}
	for _, name := range []string{"digest", "digest_386"} {
		bin, err := kchild.Bin(name)
		if err != nil {
			return ev.Result{}, ev.Inconclusivef("%v", err)
		}
		out, err := exec.Command(bin, path).Output()
		if err != nil {
			// a Go process that panics exits with status 2 and says so; anything else (killed, no memory) decides nothing
			var ee *exec.ExitError
			if errors.As(err, &ee) && ee.ExitCode() == 2 && (strings.Contains(string(ee.Stderr), "panic: ") || strings.Contains(string(ee.Stderr), "fatal error: ")) &&
				!strings.Contains(string(ee.Stderr), "out of memory") && !strings.Contains(string(ee.Stderr), "cannot allocate") {
				crashed[name] = firstLines(string(ee.Stderr), 3)
				continue
			}
			return ev.Result{}, ev.Inconclusivef("%s: %v", name, err)
		}
		for _, f := range strings.Fields(string(out)) {
			if strings.HasPrefix(f, "programs=") {
				digests[name] = f
			}
		}
	}
	if len(crashed) == 2 {
		return ev.Result{}, ev.Inconclusivef("both builds of the helper crash on this corpus: %v", crashed)
	}
	for name, msg := range crashed {
		return ev.Result{}, fmt.Errorf("the same %d policies (fixed syscall tables) compile in one build of the library and crash the other: %s: %s", len(c.Corpus), name, msg)
	}
	if digests["digest"] == "" || digests["digest"] != digests["digest_386"] {
		return ev.Result{}, fmt.Errorf("the same %d policies (fixed syscall tables) compile to different programs in a linux/amd64 and a linux/386 build of the library: %s vs %s", len(c.Corpus), digests["digest"], digests["digest_386"])
	}
	return ev.Result{Classes: []string{"same-programs-from-386-and-amd64-builds"}, NonTrivial: true, Sub: 2 * len(c.Corpus)}, nil
}

func TestC19ArchDigest(t *testing.T) {
	ev.Register("C19", "arch-digest", checkC19ArchDigest)
	seed := int(shardSeed() % 1000000)
	ev.CheckOne(t, "C19", "arch-digest", c19ArchDigestCase{Corpus: corpusPolicies(ev.Scale(200, 2000), seed)}, checkC19ArchDigest)
}

// ---- a non-Linux target without syscall tables, really executed: js/wasm under node ----

type c19WasmCase struct {
	Corpus []json.RawMessage `json:"corpus"`
}

func wasmExecNode() (node, script string, ok bool) {
	if os.Getenv("VERIF_NO_NODE") != "" { // to exercise the path taken on machines without node
		return "", "", false
	}
	node, err := exec.LookPath("node")
	if err != nil {
		return "", "", false
	}
	out, err := exec.Command("go", "env", "GOROOT").Output()
	if err != nil {
		return "", "", false
	}
	root := strings.TrimSpace(string(out))
	for _, rel := range []string{"misc/wasm/wasm_exec_node.js", "lib/wasm/wasm_exec_node.js"} {
		if _, err := os.Stat(filepath.Join(root, rel)); err == nil {
			return node, filepath.Join(root, rel), true
		}
	}
	return "", "", false
}

func checkC19Wasm(raw json.RawMessage) (ev.Result, error) { return checkWasm(raw) }

// checkWasm is shared by C19 (stubs, constants, no filter on a table-less target) and C07 ("an architecture without
// syscall tables": error and no program, never a panic - here with the architecture being the real build target).
func checkWasm(raw json.RawMessage) (ev.Result, error) { return checkWasmOpt(raw, false) }

// checkC13Wasm: the same run, and the text forms of action and flag values printed by the js/wasm process must be the
// ones this linux/amd64 process prints ("a deterministic function of the value ... across processes").
func checkC13Wasm(raw json.RawMessage) (ev.Result, error) { return checkWasmOpt(raw, true) }

func checkWasmOpt(raw json.RawMessage, texts bool) (ev.Result, error) {
	var c c19WasmCase
	if err := json.Unmarshal(raw, &c); err != nil {
		return ev.Result{}, ev.Inconclusivef("bad case: %v", err)
	}
	node, script, ok := wasmExecNode()
	if !ok {
		// nothing on this machine executes js/wasm: the target stays covered by the cross-build assertions only
		return ev.Result{Classes: []string{"js-wasm-not-executed(no node)"}}, nil
	}
	dir, err := os.MkdirTemp(os.Getenv("VERIF_TMP"), "c19wasm")
	if err != nil {
		return ev.Result{}, ev.Inconclusivef("%v", err)
	}
	defer os.RemoveAll(dir)
	mainSrc, err := os.ReadFile("testdata/jswasm_main.go.txt")
	if err != nil {
		return ev.Result{}, ev.Inconclusivef("%v", err)
	}
	os.WriteFile(filepath.Join(dir, "main.go"), mainSrc, 0o644)
	repo := os.Getenv("VERIF_REPO")
	if repo == "" {
		repo = "/repo"
	}
	gomod := "module jswasm\n\ngo 1.23\n\nrequire (\n\tgithub.com/elastic/go-seccomp-bpf v0.0.0\n\tgolang.org/x/net v0.24.0\n\tgolang.org/x/sys v0.19.0\n)\n\nreplace github.com/elastic/go-seccomp-bpf => " + repo + "\n"
	os.WriteFile(filepath.Join(dir, "go.mod"), []byte(gomod), 0o644)
	sum, _ := os.ReadFile(filepath.Join(harnessDir(), "go.sum"))
	os.WriteFile(filepath.Join(dir, "go.sum"), sum, 0o644)
	bin := filepath.Join(dir, "prog.wasm")
	cmd := exec.Command("go", "build", "-o", bin, ".")
	cmd.Dir = dir
	cmd.Env = append(os.Environ(), "GOOS=js", "GOARCH=wasm", "GOFLAGS=-mod=mod", "GOPROXY=off", "GOSUMDB=off", "GOTOOLCHAIN=local", "GOWORK=off", "CGO_ENABLED=0")
	if out, err := cmd.CombinedOutput(); err != nil {
		// whether the library builds for every target is the cross-build unit's matter
		return ev.Result{}, ev.Inconclusivef("js/wasm program does not build: %v\n%s", err, clip(string(out), 800))
	}
	corpusPath := filepath.Join(dir, "corpus.json")
	b, _ := json.Marshal(c.Corpus)
	os.WriteFile(corpusPath, b, 0o644)
	ctx, cancel := context.WithTimeout(context.Background(), 120*time.Second)
	defer cancel()
	runner, err := os.ReadFile("testdata/jswasm_runner.js.txt")
	if err != nil {
		return ev.Result{}, ev.Inconclusivef("%v", err)
	}
	runnerPath, hostCallsPath := filepath.Join(dir, "runner.js"), filepath.Join(dir, "hostcalls.json")
	os.WriteFile(runnerPath, runner, 0o644)
	run := exec.CommandContext(ctx, node, runnerPath, filepath.Join(filepath.Dir(script), "wasm_exec.js"), hostCallsPath, bin, corpusPath)
	run.Dir = dir
	var so, se bytes.Buffer
	run.Stdout, run.Stderr = &so, &se
	rerr := run.Run()
	if ctx.Err() != nil {
		return ev.Result{}, ev.Inconclusivef("js/wasm run timed out")
	}
	var r struct {
		GOOS, GOARCH string
		Supported    bool
		NNPErr       string
		LoadErrs     []string
		GetInfoErr   string
		Compiled     []string
		Errors       []string
		Panics       []string
		Policies     int
		Constants    map[string]uint32
		Lookups      map[string]string
		Texts        map[string]string
	}
	if err := json.Unmarshal(bytes.TrimSpace(so.Bytes()), &r); err != nil || r.GOOS == "" {
		if strings.Contains(se.String(), "panic:") || strings.Contains(so.String(), "panic:") {
			return ev.Result{}, fmt.Errorf("a program that imports the library panics on js/wasm before main runs / while running: %s", clip(se.String()+so.String(), 600))
		}
		return ev.Result{}, ev.Inconclusivef("js/wasm run: %v, output %q / %q", rerr, clip(so.String(), 300), clip(se.String(), 300))
	}
	if r.GOOS != "js" || r.GOARCH != "wasm" {
		return ev.Result{}, ev.Inconclusivef("program ran as %s/%s", r.GOOS, r.GOARCH)
	}
	if len(r.Panics) > 0 {
		return ev.Result{}, fmt.Errorf("on js/wasm the library panics: %v", r.Panics[:minInt(3, len(r.Panics))])
	}
	if r.Supported {
		return ev.Result{}, fmt.Errorf("on js/wasm Supported() reports seccomp as supported")
	}
	// (SetNoNewPrivs and LoadFilter are documented as stubs that never return an error: only their not panicking and
	// Supported() == false are demanded)
	if r.GetInfoErr == "" {
		return ev.Result{}, fmt.Errorf("on js/wasm arch.GetInfo(\"\") returns a table")
	}
	if len(r.Compiled) > 0 {
		return ev.Result{}, fmt.Errorf("on js/wasm (no syscall tables) compilation produces filters instead of failing: %v", r.Compiled[:minInt(3, len(r.Compiled))])
	}
	for _, want := range []struct {
		name string
		c    string
	}{{"ActionKillThread", "SECCOMP_RET_KILL_THREAD"}, {"ActionKillProcess", "SECCOMP_RET_KILL_PROCESS"}, {"ActionTrap", "SECCOMP_RET_TRAP"}, {"ActionErrno", "SECCOMP_RET_ERRNO"},
		{"ActionTrace", "SECCOMP_RET_TRACE"}, {"ActionLog", "SECCOMP_RET_LOG"}, {"ActionAllow", "SECCOMP_RET_ALLOW"}, {"FilterFlagTSync", "SECCOMP_FILTER_FLAG_TSYNC"}, {"FilterFlagLog", "SECCOMP_FILTER_FLAG_LOG"}} {
		if r.Constants[want.name] != oracle.Const(want.c) {
			return ev.Result{}, fmt.Errorf("on js/wasm %s = %#x, the kernel's %s is %#x", want.name, r.Constants[want.name], want.c, oracle.Const(want.c))
		}
	}
	// the architecture lookups give the same answers as in this (linux/amd64) process
	for n, got := range r.Lookups {
		want := "error"
		if info, err := arch.GetInfo(n); err == nil {
			want = fmt.Sprintf("%s/%d/%d/%d/read=%d", info.Name, uint32(info.ID), len(info.SyscallNames), len(info.SyscallNumbers), info.SyscallNames["read"])
		}
		if got != want {
			return ev.Result{}, fmt.Errorf("on js/wasm arch.GetInfo(%q) answers %q, in a linux/amd64 process %q: the lookup of an explicitly named architecture depends on the build target", n, got, want)
		}
	}
	res := ev.Result{Classes: []string{"js-wasm-executed", "table-less-target-executed"}, Sub: r.Policies + len(r.LoadErrs) + 3 + len(r.Lookups), NonTrivial: true}
	if texts {
		var keys []string
		for k := range r.Texts {
			keys = append(keys, k)
		}
		sort.Strings(keys)
		for _, k := range keys {
			var v uint32
			want := ""
			if _, err := fmt.Sscanf(k, "action:%d", &v); err == nil {
				b, merr := seccomp.Action(v).MarshalText()
				want = fmt.Sprintf("%s|%s|%v", seccomp.Action(v).String(), b, merr)
			} else if _, err := fmt.Sscanf(k, "flag:%d", &v); err == nil {
				want = seccomp.FilterFlag(v).String()
			} else {
				continue
			}
			if r.Texts[k] != want {
				return res, fmt.Errorf("the text form of %s is %q in a js/wasm process and %q in this linux/amd64 process: not a function of the value alone", k, r.Texts[k], want)
			}
		}
		if len(keys) == 0 {
			return res, ev.Inconclusivef("the js/wasm program reported no text forms")
		}
		res.Classes = append(res.Classes, "text-forms-in-a-js-wasm-process")
		res.Sub += len(keys)
	}
	// what reached the host while the stubs were called 200 times each: a js/wasm program has no other way out than the
	// imports counted by the runner (clock, random numbers, timers, syscall/js). The Go runtime may call some of them on
	// its own now and then (scheduler, collector), so only a count of at least one per stub call is attributed to the stubs.
	var hc struct {
		Section int            `json:"section"`
		Counts  map[string]int `json:"counts"`
	}
	if b, err := os.ReadFile(hostCallsPath); err != nil || json.Unmarshal(b, &hc) != nil || hc.Section != 2 {
		return res, ev.Inconclusivef("the runner did not see both marker lines (%v, section %d)", err, hc.Section)
	}
	var names []string
	for n := range hc.Counts {
		names = append(names, n)
	}
	sort.Strings(names)
	for _, n := range names {
		if hc.Counts[n] >= 200 {
			return res, fmt.Errorf("on js/wasm the loader stubs call the host: %d calls of %s during 200 calls each of Supported, SetNoNewPrivs and LoadFilter (all host calls in that section: %v)", hc.Counts[n], n, hc.Counts)
		}
	}
	res.Classes = append(res.Classes, "js-wasm-host-calls-of-the-stubs-counted")
	return res, nil
}

func TestC19JsWasm(t *testing.T) {
	ev.Register("C19", "jswasm", checkC19Wasm)
	seed := int(shardSeed() % 1000000)
	var c c19WasmCase
	for _, p := range corpusPolicies(ev.Scale(60, 600), seed+7777) {
		b, _ := json.Marshal(p)
		c.Corpus = append(c.Corpus, b)
	}
	// degenerate policies: groups without any syscall, a single name, every action as default
	for _, hand := range []string{
		`{"arch":"x86_64","default":2147418112,"groups":[{"action":2147418112}]}`,
		`{"arch":"x86_64","default":327680,"groups":[{"action":2147418112},{"action":0}]}`,
		`{"arch":"x86_64","default":0,"groups":[{"action":2147418112,"names":[]}]}`,
		`{"arch":"x86_64","default":2147418112,"groups":[{"action":327680,"names":["execve"]}]}`,
		`{"arch":"x86_64","default":2147483648,"groups":[{"action":2147418112,"names":["read","write","exit_group"]}]}`,
	} {
		c.Corpus = append(c.Corpus, json.RawMessage(hand))
	}
	ev.CheckOne(t, "C19", "jswasm", c, checkC19Wasm)
}

func TestC13JsWasm(t *testing.T) {
	ev.Register("C13", "jswasm", checkC13Wasm)
	var c c19WasmCase
	for _, p := range corpusPolicies(3, 4242) {
		b, _ := json.Marshal(p)
		c.Corpus = append(c.Corpus, b)
	}
	ev.CheckOne(t, "C13", "jswasm", c, checkC13Wasm)
}

func TestC07JsWasm(t *testing.T) {
	ev.Register("C07", "jswasm", checkWasm)
	seed := int(shardSeed() % 1000000)
	var c c19WasmCase
	for _, p := range corpusPolicies(ev.Scale(40, 400), seed+9999) {
		b, _ := json.Marshal(p)
		c.Corpus = append(c.Corpus, b)
	}
	for _, hand := range []string{
		`{"arch":"x86_64","default":2147418112,"groups":[{"action":2147418112}]}`,
		`{"arch":"x86_64","default":327680,"groups":[{"action":2147418112,"names":["read","read"]}]}`,
		`{"arch":"x86_64","default":327680,"groups":[{"action":2147418112,"names":["no_such_syscall"]}]}`,
		`{"arch":"x86_64","default":12345,"groups":[{"action":2147418112,"names":["read"]}]}`,
		`{"arch":"x86_64","default":327680,"groups":[]}`,
		`{"arch":"x86_64","default":327680,"groups":[{"action":0,"conds":[{"name":"read","conds":[{"arg":6,"op":"Equal","val":1}]}]}]}`,
	} {
		c.Corpus = append(c.Corpus, json.RawMessage(hand))
	}
	ev.CheckOne(t, "C07", "jswasm", c, checkWasm)
}

func TestC12JsWasm(t *testing.T) {
	ev.Register("C12", "jswasm", checkWasm)
	var c c19WasmCase
	for _, hand := range []string{
		`{"arch":"x86_64","default":2147418112,"groups":[{"action":327680,"names":["execve"]}]}`,
	} {
		c.Corpus = append(c.Corpus, json.RawMessage(hand))
	}
	ev.CheckOne(t, "C12", "jswasm", c, checkWasm)
}

// ---- constants discovered in the source: every exported Action* / FilterFlag* constant, also ones added later ----

// further UAPI values (include/uapi/linux/seccomp.h, Linux 6.1) for constants the library may come to expose
var c19MoreUAPI = map[string]uint64{
	"SECCOMP_FILTER_FLAG_SPEC_ALLOW": 1 << 2, "SECCOMP_FILTER_FLAG_NEW_LISTENER": 1 << 3, "SECCOMP_FILTER_FLAG_TSYNC_ESRCH": 1 << 4,
	"SECCOMP_FILTER_FLAG_WAIT_KILLABLE_RECV": 1 << 5, "SECCOMP_RET_KILL": 0,
}

// uapiNameOf maps ActionKillThread -> SECCOMP_RET_KILL_THREAD, FilterFlagTSyncESRCH -> SECCOMP_FILTER_FLAG_TSYNC_ESRCH.
func uapiNameOf(goName string) string {
	prefix, rest := "", ""
	switch {
	case strings.HasPrefix(goName, "Action"):
		prefix, rest = "SECCOMP_RET_", goName[len("Action"):]
	case strings.HasPrefix(goName, "FilterFlag"):
		prefix, rest = "SECCOMP_FILTER_FLAG_", goName[len("FilterFlag"):]
	default:
		return ""
	}
	rest = strings.NewReplacer("TSync", "Tsync", "ESRCH", "Esrch", "UserNotify", "UserNotif").Replace(rest)
	var b strings.Builder
	for i, r := range rest {
		if i > 0 && r >= 'A' && r <= 'Z' {
			b.WriteByte('_')
		}
		b.WriteRune(r)
	}
	return prefix + strings.ToUpper(b.String())
}

type dynConst struct {
	Go, UAPI string
	Want     uint64
}

func discoverConstants(repo string) ([]dynConst, error) {
	fset := token.NewFileSet()
	pkgs, err := parser.ParseDir(fset, repo, func(fi os.FileInfo) bool { return !strings.HasSuffix(fi.Name(), "_test.go") }, 0)
	if err != nil {
		return nil, err
	}
	seen := map[string]bool{}
	var out []dynConst
	for _, pkg := range pkgs {
		for _, f := range pkg.Files {
			for _, d := range f.Decls {
				gd, ok := d.(*ast.GenDecl)
				if !ok || gd.Tok != token.CONST {
					continue
				}
				for _, sp := range gd.Specs {
					for _, id := range sp.(*ast.ValueSpec).Names {
						if !id.IsExported() || seen[id.Name] {
							continue
						}
						u := uapiNameOf(id.Name)
						if u == "" {
							continue
						}
						seen[id.Name] = true
						if v, ok := oracle.ConstOK(u); ok {
							out = append(out, dynConst{id.Name, u, uint64(v)})
						} else if v, ok := c19MoreUAPI[u]; ok {
							out = append(out, dynConst{id.Name, u, v})
						}
					}
				}
			}
		}
	}
	sort.Slice(out, func(i, j int) bool { return out[i].Go < out[j].Go })
	return out, nil
}

var (
	dynOnce sync.Once
	dynDir  string
	dynErr  error
	dynN    int
)

// dynAssertModule writes a module with one compile-time assertion per discovered constant.
func dynAssertModule() (string, int, error) {
	dynOnce.Do(func() {
		repo := os.Getenv("VERIF_REPO")
		if repo == "" {
			repo = "/repo"
		}
		cs, err := discoverConstants(repo)
		if err != nil {
			dynErr = err
			return
		}
		dir, err := os.MkdirTemp(os.Getenv("VERIF_TMP"), "dynassert")
		if err != nil {
			dynErr = err
			return
		}
		var b strings.Builder
		b.WriteString("// generated: every exported Action*/FilterFlag* constant found in the source against the UAPI value\npackage dynassert\n\nimport seccomp \"github.com/elastic/go-seccomp-bpf\"\n\n")
		for _, c := range cs {
			fmt.Fprintf(&b, "var _ [uint64(seccomp.%s) - %d]struct{} // %s\nvar _ [%d - uint64(seccomp.%s)]struct{}\n", c.Go, c.Want, c.UAPI, c.Want, c.Go)
		}
		os.WriteFile(filepath.Join(dir, "dyn.go"), []byte(b.String()), 0o644)
		gomod := "module dynassert\n\ngo 1.23\n\nrequire (\n\tgithub.com/elastic/go-seccomp-bpf v0.0.0\n\tgolang.org/x/net v0.24.0\n\tgolang.org/x/sys v0.19.0\n)\n\nreplace github.com/elastic/go-seccomp-bpf => " + repo + "\n"
		os.WriteFile(filepath.Join(dir, "go.mod"), []byte(gomod), 0o644)
		sum, _ := os.ReadFile(filepath.Join(harnessDir(), "go.sum"))
		os.WriteFile(filepath.Join(dir, "go.sum"), sum, 0o644)
		dynDir, dynN = dir, len(cs)
	})
	return dynDir, dynN, dynErr
}

func buildDynAssert(goos, goarch string) (string, int, error) {
	dir, n, err := dynAssertModule()
	if err != nil || n == 0 {
		return "", n, err
	}
	cmd := exec.Command("go", "build", "./...")
	cmd.Dir = dir
	cmd.Env = append(os.Environ(), "GOOS="+goos, "GOARCH="+goarch, "GOFLAGS=-mod=mod", "GOPROXY=off", "GOSUMDB=off", "GOTOOLCHAIN=local", "GOWORK=off", "CGO_ENABLED=0")
	out, err := cmd.CombinedOutput()
	if err != nil {
		return string(out), n, fmt.Errorf("build failed")
	}
	return "", n, nil
}

// ---- the build's own architecture on targets that cannot be executed here: overlay with runtime.GOARCH replaced ----

// Targets like linux/mips or linux/s390x cannot run on this machine, and the native lookup (the empty name, which
// Policy.Assemble uses) only shows its behaviour on the target itself. The arch package is therefore rebuilt for the
// host with an overlay in which every textual `runtime.GOARCH` of its source files is replaced by the name of the target's
// GOARCH, and a small program reports what GetInfo("") and Assemble do. If the sources do not mention runtime.GOARCH
// (any more), nothing is replaced and the unit records that it could not simulate.

type c19OverlayCase struct {
	GOARCH string `json:"goarch"`
}

type c19OverlayOutcome struct {
	res ev.Result
	err error
}

var (
	c19OverlayMu    sync.Mutex
	c19OverlayCache = map[string]c19OverlayOutcome{}
)

func checkC19Overlay(raw json.RawMessage) (ev.Result, error) {
	var c c19OverlayCase
	if err := json.Unmarshal(raw, &c); err != nil {
		return ev.Result{}, ev.Inconclusivef("bad case: %v", err)
	}
	c19OverlayMu.Lock()
	o, ok := c19OverlayCache[c.GOARCH]
	c19OverlayMu.Unlock()
	if ok {
		return o.res, o.err
	}
	return computeC19Overlay(c)
}

func computeC19Overlay(c c19OverlayCase) (ev.Result, error) {
	repo := os.Getenv("VERIF_REPO")
	if repo == "" {
		repo = "/repo"
	}
	dir, err := os.MkdirTemp(os.Getenv("VERIF_TMP"), "c19overlay")
	if err != nil {
		return ev.Result{}, ev.Inconclusivef("%v", err)
	}
	defer os.RemoveAll(dir)
	overlay := map[string]string{}
	replaced := 0
	for _, sub := range []string{"arch", "."} {
		ents, err := os.ReadDir(filepath.Join(repo, sub))
		if err != nil {
			return ev.Result{}, ev.Inconclusivef("%v", err)
		}
		for _, e := range ents {
			n := e.Name()
			if e.IsDir() || !strings.HasSuffix(n, ".go") || strings.HasSuffix(n, "_test.go") {
				continue
			}
			src, err := os.ReadFile(filepath.Join(repo, sub, n))
			if err != nil || !bytes.Contains(src, []byte("runtime.GOARCH")) {
				continue
			}
			k := bytes.Count(src, []byte("runtime.GOARCH"))
			patched := bytes.ReplaceAll(src, []byte("runtime.GOARCH"), []byte(fmt.Sprintf("%q", c.GOARCH)))
			patched = append(patched, []byte("\nvar _ = runtime.GOOS // keeps the import used\n")...)
			os.MkdirAll(filepath.Join(dir, "ov"), 0o755)
			dst := filepath.Join(dir, "ov", fmt.Sprintf("%s_%s.txt", strings.ReplaceAll(sub, ".", "root"), n))
			if err := os.WriteFile(dst, patched, 0o644); err != nil {
				return ev.Result{}, ev.Inconclusivef("%v", err)
			}
			overlay[filepath.Join(repo, sub, n)] = dst
			replaced += k
		}
	}
	if replaced == 0 {
		return ev.Result{Classes: []string{"native-lookup-not-simulated(no textual runtime.GOARCH)"}}, nil
	}
	ob, _ := json.Marshal(map[string]any{"Replace": overlay})
	ovPath := filepath.Join(dir, "overlay.json")
	os.WriteFile(ovPath, ob, 0o644)
	mainSrc := `package main

import (
	"fmt"

	seccomp "github.com/elastic/go-seccomp-bpf"
	"github.com/elastic/go-seccomp-bpf/arch"
)

func main() {
	defer func() {
		if x := recover(); x != nil {
			fmt.Printf("panic=%v\n", x)
		}
	}()
	info, err := arch.GetInfo("")
	if err != nil {
		fmt.Println("native=error")
	} else {
		fmt.Printf("native=%s/%d\n", info.Name, len(info.SyscallNames))
	}
	for i, p := range []seccomp.Policy{
		{DefaultAction: seccomp.ActionAllow, Syscalls: []seccomp.SyscallGroup{{Action: seccomp.ActionErrno, Names: []string{"read"}}}},
		{DefaultAction: seccomp.ActionAllow, Syscalls: []seccomp.SyscallGroup{{Action: seccomp.ActionErrno}}},
		{DefaultAction: seccomp.ActionErrno, Syscalls: []seccomp.SyscallGroup{{Action: seccomp.ActionAllow, Names: []string{}}}},
	} {
		insts, err := p.Assemble()
		fmt.Printf("policy%d=%d/%v\n", i, len(insts), err != nil)
	}
}
`
	os.WriteFile(filepath.Join(dir, "main.go"), []byte(mainSrc), 0o644)
	gomod := "module c19overlay\n\ngo 1.23\n\nrequire (\n\tgithub.com/elastic/go-seccomp-bpf v0.0.0\n\tgolang.org/x/net v0.24.0\n\tgolang.org/x/sys v0.19.0\n)\n\nreplace github.com/elastic/go-seccomp-bpf => " + repo + "\n"
	os.WriteFile(filepath.Join(dir, "go.mod"), []byte(gomod), 0o644)
	sum, _ := os.ReadFile(filepath.Join(harnessDir(), "go.sum"))
	os.WriteFile(filepath.Join(dir, "go.sum"), sum, 0o644)
	bin := filepath.Join(dir, "prog")
	cmd := exec.Command("go", "build", "-overlay", ovPath, "-o", bin, ".")
	cmd.Dir = dir
	cmd.Env = append(os.Environ(), "GOFLAGS=-mod=mod", "GOPROXY=off", "GOSUMDB=off", "GOTOOLCHAIN=local", "GOWORK=off", "CGO_ENABLED=0")
	if out, err := cmd.CombinedOutput(); err != nil {
		return ev.Result{Classes: []string{"native-lookup-not-simulated(overlay does not build)"}}, ev.Inconclusivef("overlay build for %s: %v\n%s", c.GOARCH, err, clip(string(out), 600))
	}
	out, err := exec.Command(bin).Output()
	if err != nil {
		return ev.Result{}, ev.Inconclusivef("overlay program: %v", err)
	}
	m := map[string]string{}
	for _, l := range strings.Split(strings.TrimSpace(string(out)), "\n") {
		if kv := strings.SplitN(l, "=", 2); len(kv) == 2 {
			m[kv[0]] = kv[1]
		}
	}
	res := ev.Result{Classes: []string{"native-lookup-simulated-by-overlay", "overlay:" + c.GOARCH}, NonTrivial: true, Sub: 4}
	if p, ok := m["panic"]; ok {
		return res, fmt.Errorf("with the build's architecture being %s the library panics: %s", c.GOARCH, p)
	}
	tables := map[string]string{"386": "i386", "amd64": "x86_64", "arm": "arm", "arm64": "aarch64"}
	if want, ok := tables[c.GOARCH]; ok {
		if !strings.HasPrefix(m["native"], want+"/") {
			return res, fmt.Errorf("with the build's architecture being %s, GetInfo(\"\") answers %q, want the %s table", c.GOARCH, m["native"], want)
		}
		if m["policy0"] == "" || strings.HasPrefix(m["policy0"], "0/") {
			return res, fmt.Errorf("with the build's architecture being %s a valid policy does not compile (%s)", c.GOARCH, m["policy0"])
		}
		res.Classes = append(res.Classes, "overlay:goarch-with-tables")
		return res, nil
	}
	if m["native"] != "error" {
		return res, fmt.Errorf("with the build's architecture being %s (no syscall tables) GetInfo(\"\") succeeds: %s", c.GOARCH, m["native"])
	}
	for i := 0; i < 3; i++ {
		v := m[fmt.Sprintf("policy%d", i)]
		if !strings.HasPrefix(v, "0/true") {
			return res, fmt.Errorf("with the build's architecture being %s (no syscall tables) compilation of policy %d gives instructions/error = %s, want no program and an error", c.GOARCH, i, v)
		}
	}
	res.Classes = append(res.Classes, "overlay:goarch-without-tables")
	return res, nil
}

func TestC19NativeOverlay(t *testing.T) {
	ev.Register("C19", "native-overlay", checkC19Overlay)
	var wg sync.WaitGroup
	archs := []string{"mips", "mipsle", "mips64", "mips64le", "ppc64", "ppc64le", "s390x", "riscv64", "loong64", "wasm", "386", "arm", "arm64", "amd64"}
	// the builds run in parallel, the verdicts are then taken one after the other
	for _, a := range archs {
		wg.Add(1)
		go func(a string) {
			defer wg.Done()
			res, err := computeC19Overlay(c19OverlayCase{GOARCH: a})
			c19OverlayMu.Lock()
			c19OverlayCache[a] = c19OverlayOutcome{res, err}
			c19OverlayMu.Unlock()
		}(a)
	}
	wg.Wait()
	for _, a := range archs {
		if !ev.CheckOne(t, "C19", "native-overlay", c19OverlayCase{GOARCH: a}, checkC19Overlay) {
			return
		}
	}
}

func firstLines(s string, n int) string {
	lines := strings.Split(strings.TrimSpace(s), "\n")
	if len(lines) > n {
		lines = lines[:n]
	}
	return strings.Join(lines, " | ")
}
