package props

import (
	"encoding/json"
	"fmt"
	"testing"

	seccomp "github.com/elastic/go-seccomp-bpf"
	"pgregory.net/rapid"

	"verif/harness/internal/cbpf"
	"verif/harness/internal/ev"
	"verif/harness/internal/gen"
	"verif/harness/internal/kchild"
	"verif/harness/internal/model"
	"verif/harness/internal/oracle"
	"verif/harness/internal/spec"
)

// C05 — every emitted program is a valid seccomp filter with a closed return set.

type c05Case struct {
	Policy spec.Policy `json:"policy"`
	Seed   uint64      `json:"seed"`
	Order  string      `json:"order"`  // native / little / big
	Kernel bool        `json:"kernel"` // also ask the running kernel
	// Prev: the same Policy value compiled this (different) policy before and was then overwritten field by field
	// (callers reuse and modify policy values); the program returned now must be the one of Policy.
	Prev *spec.Policy `json:"prev,omitempty"`
	// ThenEdited: after the program under test was returned, the same Policy value - and a copy of it - get other actions
	// everywhere (values the policy does not use) and are compiled again; the caller still holds the first program, and
	// that is the one examined
	ThenEdited bool `json:"then_edited,omitempty"`
}

// tuneLength grows or shrinks the policy until the compiled program has a
// length in [lo,hi] (generator-side search; the compiler is only used to measure).
func tuneLength(p *spec.Policy, lo, hi int, seed uint64) {
	u := gen.Universe(p.Arch)
	for iter := 0; iter < 14; iter++ {
		cp, err, pan := compilePolicy(p)
		if err != nil || pan != nil {
			return
		}
		n := len(cp.insts)
		if n >= lo && n <= hi {
			return
		}
		if n > hi {
			// drop conditions, then names, from the end
			excess := n - hi
			for gi := len(p.Groups) - 1; gi >= 0 && excess > 0; gi-- {
				g := &p.Groups[gi]
				for len(g.Conds) > 0 && excess > 0 {
					last := &g.Conds[len(g.Conds)-1]
					if excess > 5*len(last.Conds)+3 || len(last.Conds) <= 1 {
						excess -= 4*len(last.Conds) + 2
						g.Conds = g.Conds[:len(g.Conds)-1]
					} else {
						k := excess/5 + 1
						if k >= len(last.Conds) {
							k = len(last.Conds) - 1
						}
						last.Conds = last.Conds[:len(last.Conds)-k]
						excess -= 4 * k
					}
				}
				for len(g.Names) > 0 && excess > 0 {
					g.Names = g.Names[:len(g.Names)-1]
					excess--
				}
			}
			continue
		}
		missing := lo + (hi-lo)/2 - n
		r := gen.NewRng(seed + uint64(iter))
		if missing > 40 {
			// add a conditional entry with many conditions to a new group
			k := missing / 5
			if k > 80 {
				k = 80
			}
			name := u[r.Intn(len(u))]
			ce := spec.CondEntry{Name: name}
			for i := 0; i < k; i++ {
				ce.Conds = append(ce.Conds, spec.Cond{Arg: uint32(r.Intn(6)), Op: spec.Ops[r.Intn(8)], Val: gen.Boundary[r.Intn(len(gen.Boundary))]})
			}
			p.Groups = append(p.Groups, spec.Group{Action: oracle.ActionList()[r.Intn(7)], Conds: []spec.CondEntry{ce}})
			continue
		}
		// add single names to a group that can take them
		added := 0
		for gi := range p.Groups {
			g := &p.Groups[gi]
			in := map[string]bool{}
			for _, x := range g.Names {
				in[x] = true
			}
			for _, ce := range g.Conds {
				in[ce.Name] = true
			}
			for _, x := range gen.Subset(u, seed+uint64(iter), len(u)) {
				if added >= missing {
					break
				}
				if !in[x] {
					g.Names = append(g.Names, x)
					in[x] = true
					added++
				}
			}
			if added >= missing {
				break
			}
		}
		if added == 0 {
			p.Groups = append(p.Groups, spec.Group{Action: oracle.ActionList()[r.Intn(7)], Names: gen.Subset(u, seed, min(missing, len(u)))})
		}
	}
}

func min(a, b int) int {
	if a < b {
		return a
	}
	return b
}

func drawC05(t *rapid.T) c05Case {
	archName := drawArch(t)
	k := rapid.IntRange(0, 11).Draw(t, "shape")
	var p spec.Policy
	switch {
	case k == 0:
		// degenerate by hand: only empty groups / a single name
		p = spec.Policy{Arch: archName, Default: oracle.ActionList()[rapid.IntRange(0, 6).Draw(t, "default")]}
		ng := rapid.IntRange(1, 4).Draw(t, "ng")
		for i := 0; i < ng; i++ {
			g := spec.Group{Action: oracle.ActionList()[rapid.IntRange(0, 6).Draw(t, "action")]}
			if rapid.IntRange(0, 3).Draw(t, "oneName") == 0 {
				u := gen.Universe(archName)
				g.Names = []string{u[rapid.IntRange(0, len(u)-1).Draw(t, "name")]}
			}
			p.Groups = append(p.Groups, g)
		}
	case k == 1:
		p = gen.Policy(t, archName, gen.Opts{Profile: gen.Long})
		lo := rapid.IntRange(4080, 4092).Draw(t, "lenTarget")
		tuneLength(&p, lo, lo+4, rapid.Uint64().Draw(t, "tuneSeed"))
	case k == 2:
		p = gen.Policy(t, archName, gen.Opts{Profile: gen.Long})
		tuneLength(&p, 4093, 4096, rapid.Uint64().Draw(t, "tuneSeed"))
	default:
		prof := []gen.Profile{gen.Small, gen.NamesOnly, gen.Long, gen.Edge255, gen.Degenerate, gen.CondHeavy, gen.Long, gen.CondHeavy, gen.Degenerate}[k-3]
		p = gen.Policy(t, archName, gen.Opts{Profile: prof})
		if prof == gen.Edge255 {
			tuneArchJump(&p, rapid.IntRange(250, 260).Draw(t, "archJumpTarget"), rapid.Uint64().Draw(t, "tuneSeed"))
		}
	}
	if rapid.IntRange(0, 7).Draw(t, "maybeInvalid") == 0 {
		// policies with an injected defect: normally rejected, but whatever is accepted must still be a valid filter
		p = drawC07(t).Policy
	}
	if rapid.IntRange(0, 9).Draw(t, "stripConditions") == 0 {
		// conditional entries that carry no condition (nil or empty list): whether such a policy is accepted is not
		// settled by C07, but whatever is accepted must be a valid filter. All of them, or every other one.
		all := rapid.Bool().Draw(t, "stripAll")
		empty := rapid.Bool().Draw(t, "emptyNotNil")
		if p.Groups != nil {
			p.Groups = append([]spec.Group(nil), p.Groups...)
		}
		k := 0
		for gi := range p.Groups {
			p.Groups[gi].Conds = append([]spec.CondEntry(nil), p.Groups[gi].Conds...)
			for ei := range p.Groups[gi].Conds {
				if all || k%2 == 0 {
					p.Groups[gi].Conds[ei].Conds = nil
					if empty {
						p.Groups[gi].Conds[ei].Conds = []spec.Cond{}
					}
				}
				k++
			}
		}
	}
	c := c05Case{Policy: p, Seed: rapid.Uint64().Draw(t, "seed"),
		Order: []string{"native", "native", "little", "big"}[rapid.IntRange(0, 3).Draw(t, "order")]}
	if rapid.IntRange(0, 5).Draw(t, "reuseValue") == 0 {
		prev := gen.Policy(t, p.Arch, gen.Opts{Profile: gen.Small})
		c.Prev = &prev
	}
	c.ThenEdited = rapid.IntRange(0, 4).Draw(t, "thenEdited") == 0
	every := ev.Scale(12, 6)
	c.Kernel = rapid.IntRange(0, every-1).Draw(t, "kernel") == 0 || k <= 2
	return c
}

func kernelAvailable() bool {
	_, err := kchild.Bin("kverify")
	return err == nil
}

func checkC05(raw json.RawMessage) (ev.Result, error) {
	var c c05Case
	if err := json.Unmarshal(raw, &c); err != nil {
		return ev.Result{}, ev.Inconclusivef("bad case: %v", err)
	}
	p := &c.Policy
	if c.Order != "native" && c.Order != "" {
		old := seccomp.VerifSetByteOrder(orderOf(c.Order))
		defer seccomp.VerifSetByteOrder(old)
	}
	res := ev.Result{}
	allEmpty := true
	for _, g := range p.Groups {
		if len(g.Names) > 0 || len(g.Conds) > 0 {
			allEmpty = false
		}
	}
	if allEmpty {
		res.Classes = append(res.Classes, "all-groups-empty-attempted")
	}
	var cp *compiled
	var cerr error
	var pan any
	if (c.Prev != nil && c.Prev.Arch == p.Arch) || c.ThenEdited {
		func() {
			defer func() { pan = recover() }()
			sp := p.ToSeccomp()
			if c.Prev != nil && c.Prev.Arch == p.Arch {
				res.Classes = append(res.Classes, "value-reused-after-compiling-another-policy")
				sp = c.Prev.ToSeccomp()
				sp.Assemble()
				np := p.ToSeccomp()
				sp.DefaultAction, sp.Syscalls = np.DefaultAction, np.Syscalls
			}
			insts, err := sp.Assemble()
			cerr = err
			if err == nil {
				cp = &compiled{insts: insts}
			}
			if err == nil && c.ThenEdited {
				res.Classes = append(res.Classes, "value-edited-and-compiled-again-while-the-program-is-held")
				used := map[uint32]bool{uint32(sp.DefaultAction): true}
				for _, g := range sp.Syscalls {
					used[uint32(g.Action)] = true
				}
				var unused []uint32
				for _, a := range oracle.ActionList() {
					if !used[a] {
						unused = append(unused, a)
					}
				}
				unused = append(unused, oracle.Const("SECCOMP_RET_ERRNO")|0x77, oracle.Const("SECCOMP_RET_TRACE")|0x1234)
				cp2 := *sp
				for k, v := range []*seccomp.Policy{sp, &cp2} {
					v.DefaultAction = seccomp.Action(unused[k%len(unused)])
					groups := append([]seccomp.SyscallGroup(nil), v.Syscalls...)
					for gi := range groups {
						groups[gi].Action = seccomp.Action(unused[(k+gi+1)%len(unused)])
					}
					v.Syscalls = groups
					v.Assemble()
				}
			}
		}()
	} else {
		cp, cerr, pan = compilePolicy(p)
	}
	if pan != nil {
		return res, fmt.Errorf("Assemble panicked: %v", pan)
	}
	if cerr != nil {
		res.Classes = append(res.Classes, "rejected-by-compiler")
		return res, nil
	}
	if len(cp.insts) == 0 {
		return res, fmt.Errorf("Assemble returned an empty program without error")
	}
	if err := cp.encode(); err != nil {
		return res, fmt.Errorf("program of %d instructions does not encode to raw form: %v", len(cp.insts), err)
	}
	st := &evalStats{classes: map[string]bool{}}
	policyShape(p, cp, st)
	st.class("order:" + c.Order)
	n := len(cp.raw)
	switch {
	case n > cbpf.MaxInsns:
		st.class("program>4096(no-claim)")
	case n >= cbpf.MaxInsns-10:
		st.class("program-within-10-of-4096")
	}
	if n <= cbpf.MaxInsns {
		if err := cbpf.Verify(cp.raw); err != nil {
			return res, fmt.Errorf("program of %d instructions would be refused by the kernel's verifier: %v", n, err)
		}
	}
	// closed return set
	allowed := map[uint32]string{model.Ret(p.Default): "default"}
	for gi, g := range p.Groups {
		allowed[model.Ret(g.Action)] = fmt.Sprintf("group %d", gi)
	}
	if p.Arch == "x86_64" {
		allowed[oracle.Const("SECCOMP_RET_ERRNO")|oracle.Const("ENOSYS")] = "x32 guard"
	}
	vals, nonConst := cbpf.Returns(cp.raw)
	if nonConst {
		return res, fmt.Errorf("program contains a return that is not RET K")
	}
	for _, v := range vals {
		if _, ok := allowed[v]; !ok {
			return res, fmt.Errorf("program can return %#x, which is neither the default action, nor a group action, nor ERRNO(ENOSYS) on x86_64 (allowed: %v)", v, allowed)
		}
	}
	// only aligned 32-bit loads inside the record (also part of Verify; explicit for programs > 4096)
	for pc, in := range cp.raw {
		if off, ok := in.IsLoad(); ok {
			if off%4 != 0 || off >= 64 {
				return res, fmt.Errorf("pc %d loads at offset %d", pc, off)
			}
		}
	}
	if c.Kernel && n <= cbpf.MaxInsns && kernelAvailable() {
		ok, errno, err := kchild.KernelVerdict(cp.raw)
		if err != nil {
			return res, ev.Inconclusivef("kernel probe failed: %v", err)
		}
		if !ok {
			return res, fmt.Errorf("the running kernel refuses the program of %d instructions (errno %d)", n, errno)
		}
		st.class("accepted-by-running-kernel")
		if n >= cbpf.MaxInsns-10 {
			st.class("kernel:program-within-10-of-4096")
		}
		if allEmpty {
			st.class("kernel:all-groups-empty")
		}
	}
	res.Classes = append(res.Classes, st.list()...)
	withConds, withoutConds := 0, 0
	for _, g := range p.Groups {
		for _, ce := range g.Conds {
			if len(ce.Conds) == 0 {
				withoutConds++
			} else {
				withConds++
			}
		}
	}
	if withoutConds > 0 && withConds == 0 {
		res.Classes = append(res.Classes, "accepted:conditional-entries-none-of-which-carries-a-condition")
	} else if withoutConds > 0 {
		res.Classes = append(res.Classes, "accepted:some-conditional-entries-without-conditions")
	}
	res.NonTrivial = st.anyGroupEmpty || n > 255 || st.hasArgLoads || withoutConds > 0
	return res, nil
}

func TestC05Programs(t *testing.T) {
	ev.Prop(t, "C05", "program", drawC05, checkC05)
}

// ---- validation of the verifier port against the running kernel ----

type c05DiffCase struct {
	Policy  spec.Policy `json:"policy"`
	Mut     string      `json:"mutation"`
	Pos     int         `json:"pos"` // position selector (taken modulo the candidates)
	Operand uint32      `json:"operand"`
}

var c05Mutations = []string{"none", "jt+", "jf+", "jt=255", "ja+", "ja-to-end", "ld-off-1", "ld-off-2", "ld-off-64", "ld-off-68", "ld-off-max", "ld-size-h", "ld-size-b",
	"op-ldx-msh", "op-ld-ind", "op-mod", "op-div0", "op-lsh32", "op-ret-x", "op-garbage", "last-not-ret", "truncate-1", "ld-mem-unset", "st-then-ld-mem", "mem-16", "ret-a", "tax-txa", "len-4097", "alu-ok", "jeq-x"}

func drawC05Diff(t *rapid.T) c05DiffCase {
	archName := drawArch(t)
	prof := []gen.Profile{gen.Small, gen.CondHeavy, gen.Edge255}[rapid.IntRange(0, 2).Draw(t, "profile")]
	p := gen.Policy(t, archName, gen.Opts{Profile: prof, MaxInsns: 2500})
	return c05DiffCase{Policy: p, Mut: c05Mutations[rapid.IntRange(0, len(c05Mutations)-1).Draw(t, "mutation")],
		Pos: rapid.IntRange(0, 1<<20).Draw(t, "pos"), Operand: rapid.Uint32().Draw(t, "operand")}
}

func mutateProgram(prog []cbpf.Raw, c *c05DiffCase) []cbpf.Raw {
	out := append([]cbpf.Raw(nil), prog...)
	pickIdx := func(pred func(cbpf.Raw) bool) int {
		var idx []int
		for i, in := range out {
			if pred(in) {
				idx = append(idx, i)
			}
		}
		if len(idx) == 0 {
			return -1
		}
		return idx[c.Pos%len(idx)]
	}
	any := func(cbpf.Raw) bool { return true }
	isLoad := func(in cbpf.Raw) bool { _, ok := in.IsLoad(); return ok }
	rest := func(i int) uint32 { return uint32(len(out) - i - 1) }
	switch c.Mut {
	case "none":
	case "jt+":
		if i := pickIdx(cbpf.Raw.IsCondJump); i >= 0 {
			out[i].Jt = uint8(min(255, int(rest(i))+int(c.Operand%3)))
		}
	case "jf+":
		if i := pickIdx(cbpf.Raw.IsCondJump); i >= 0 {
			out[i].Jf = uint8(min(255, int(rest(i))-1+int(c.Operand%3)))
		}
	case "jt=255":
		if i := pickIdx(cbpf.Raw.IsCondJump); i >= 0 {
			out[i].Jt = 255
		}
	case "ja+":
		if i := pickIdx(cbpf.Raw.IsJa); i >= 0 {
			out[i].K = rest(i) - 1 + c.Operand%3
		} else if i := pickIdx(any); i >= 0 {
			out[i] = cbpf.Raw{Op: cbpf.OpJa, K: rest(i) - 1 + c.Operand%3}
		}
	case "ja-to-end":
		if i := pickIdx(any); i >= 0 && i < len(out)-1 {
			out[i] = cbpf.Raw{Op: cbpf.OpJa, K: rest(i) - 1}
		}
	case "ld-off-1", "ld-off-2", "ld-off-64", "ld-off-68", "ld-off-max":
		if i := pickIdx(isLoad); i >= 0 {
			out[i].K = map[string]uint32{"ld-off-1": 1, "ld-off-2": 2, "ld-off-64": 64, "ld-off-68": 68, "ld-off-max": 0xfffffffc}[c.Mut]
		}
	case "ld-size-h":
		if i := pickIdx(isLoad); i >= 0 {
			out[i].Op = cbpf.OpLdHAbs
		}
	case "ld-size-b":
		if i := pickIdx(isLoad); i >= 0 {
			out[i].Op = cbpf.OpLdBAbs
		}
	case "op-ldx-msh":
		if i := pickIdx(isLoad); i >= 0 {
			out[i].Op = cbpf.OpLdxMsh
		}
	case "op-ld-ind":
		if i := pickIdx(isLoad); i >= 0 {
			out[i].Op = cbpf.OpLdWInd
		}
	case "op-mod":
		if i := pickIdx(isLoad); i >= 0 {
			out[i] = cbpf.Raw{Op: cbpf.OpModK, K: 3}
		}
	case "op-div0":
		if i := pickIdx(isLoad); i >= 0 {
			out[i] = cbpf.Raw{Op: cbpf.OpDivK, K: c.Operand % 2}
		}
	case "op-lsh32":
		if i := pickIdx(isLoad); i >= 0 {
			out[i] = cbpf.Raw{Op: cbpf.OpLshK, K: 31 + c.Operand%2}
		}
	case "op-ret-x":
		if i := pickIdx(cbpf.Raw.IsRetK); i >= 0 {
			out[i].Op = cbpf.OpRetX
		}
	case "op-garbage":
		if i := pickIdx(any); i >= 0 {
			out[i].Op = uint16(c.Operand)
		}
	case "last-not-ret":
		out[len(out)-1] = cbpf.Raw{Op: cbpf.OpLdWAbs, K: 0}
	case "truncate-1":
		if len(out) > 1 {
			out = out[:len(out)-1]
		}
	case "ld-mem-unset":
		if i := pickIdx(isLoad); i >= 0 {
			out[i] = cbpf.Raw{Op: cbpf.OpLdMem, K: c.Operand % 16}
		}
	case "st-then-ld-mem":
		// store early, read the cell later: valid only if the store dominates the load
		i := pickIdx(isLoad)
		if i >= 0 {
			out[0] = cbpf.Raw{Op: cbpf.OpSt, K: c.Operand % 16}
			if i > 0 {
				out[i] = cbpf.Raw{Op: cbpf.OpLdMem, K: (c.Operand + c.Operand>>8%2) % 16}
			}
		}
	case "mem-16":
		if i := pickIdx(isLoad); i >= 0 {
			out[i] = cbpf.Raw{Op: cbpf.OpSt, K: 15 + c.Operand%2}
		}
	case "ret-a":
		if i := pickIdx(cbpf.Raw.IsRetK); i >= 0 {
			out[i].Op = cbpf.OpRetA
		}
	case "tax-txa":
		if i := pickIdx(isLoad); i >= 0 {
			out[i] = cbpf.Raw{Op: []uint16{cbpf.OpTax, cbpf.OpTxa, cbpf.OpNeg, cbpf.OpLdLen, cbpf.OpLdImm, cbpf.OpLdxImm}[c.Operand%6], K: c.Operand}
		}
	case "len-4097":
		for len(out) < cbpf.MaxInsns+int(c.Operand%2) {
			out = append([]cbpf.Raw{{Op: cbpf.OpLdImm, K: 1}}, out...)
		}
	case "alu-ok":
		if i := pickIdx(isLoad); i >= 0 {
			out[i] = cbpf.Raw{Op: cbpf.OpAddK, K: c.Operand}
		}
	case "jeq-x":
		if i := pickIdx(cbpf.Raw.IsCondJump); i >= 0 {
			out[i].Op = cbpf.OpJeqX
		}
	}
	return out
}

// checkC05Diff never reports a violation of the library: a disagreement
// between the verifier port and the kernel means the oracle is wrong.
func checkC05Diff(raw json.RawMessage) (ev.Result, error) {
	var c c05DiffCase
	if err := json.Unmarshal(raw, &c); err != nil {
		return ev.Result{}, ev.Inconclusivef("bad case: %v", err)
	}
	if !kernelAvailable() {
		return ev.Result{}, ev.Inconclusivef("kverify helper not available")
	}
	cp, cerr, pan := compilePolicy(&c.Policy)
	if pan != nil || cerr != nil {
		return ev.Result{Classes: []string{"diff:not-compiled"}}, nil
	}
	if err := cp.encode(); err != nil {
		return ev.Result{Classes: []string{"diff:not-encoded"}}, nil
	}
	prog := mutateProgram(cp.raw, &c)
	if len(prog) > 0xffff {
		return ev.Result{Classes: []string{"diff:too-long"}}, nil
	}
	perr := cbpf.Verify(prog)
	ok, errno, err := kchild.KernelVerdict(prog)
	if err != nil {
		return ev.Result{}, ev.Inconclusivef("kernel probe failed: %v", err)
	}
	if ok != (perr == nil) {
		return ev.Result{}, ev.Inconclusivef("verifier port disagrees with the running kernel on mutation %s of a %d-instruction program: port says %v, kernel accepted=%v errno=%d",
			c.Mut, len(prog), perr, ok, errno)
	}
	res := ev.Result{Classes: []string{"diff:" + c.Mut}}
	if ok {
		res.Classes = append(res.Classes, "diff:both-accept")
	} else {
		res.Classes = append(res.Classes, "diff:both-reject")
		res.NonTrivial = true
	}
	return res, nil
}

func TestC05VerifierPort(t *testing.T) {
	ev.Prop(t, "C05", "verifier-differential", drawC05Diff, checkC05Diff)
}
