package props

import (
	"encoding/hex"
	"encoding/json"
	"fmt"
	"reflect"
	"strings"
	"testing"
	"unicode/utf8"

	seccomp "github.com/elastic/go-seccomp-bpf"
	uyaml "github.com/elastic/go-ucfg/yaml"
	"golang.org/x/net/bpf"
	yaml "gopkg.in/yaml.v2"
	"pgregory.net/rapid"

	"verif/harness/internal/cfgwriter"
	"verif/harness/internal/ev"
	"verif/harness/internal/gen"
	"verif/harness/internal/oracle"
	"verif/harness/internal/spec"
)

// C14 — text and configuration forms denote the same policy.

// ---------- parsers ----------

type c14ParseCase struct {
	Kind  string `json:"kind"` // action / operation
	Input string `json:"input"`
	// Hex: the input as hex-encoded bytes, for inputs that are not valid UTF-8 (JSON would alter them); overrides Input
	Hex string `json:"hex,omitempty"`
}

func asciiLower(s string) string {
	b := []byte(s)
	for i := range b {
		if b[i] >= 'A' && b[i] <= 'Z' {
			b[i] += 32
		}
	}
	return string(b)
}

func checkC14Parse(raw json.RawMessage) (ev.Result, error) {
	var c c14ParseCase
	if err := json.Unmarshal(raw, &c); err != nil {
		return ev.Result{}, ev.Inconclusivef("bad case: %v", err)
	}
	if c.Hex != "" {
		b, err := hex.DecodeString(c.Hex)
		if err != nil {
			return ev.Result{}, ev.Inconclusivef("bad case: %v", err)
		}
		c.Input = string(b)
	}
	res := ev.Result{Classes: []string{"parse:" + c.Kind}}
	if !isASCII(c.Input) {
		// non-ASCII strings that case-fold onto a documented name: status not settled by the documentation
		fold := strings.ToLower(c.Input)
		for n := range oracle.Actions() {
			if strings.EqualFold(n, c.Input) || fold == n {
				return ev.Result{Classes: []string{"parse:unicode-fold-no-claim"}}, nil
			}
		}
		for _, o := range spec.Ops {
			if strings.EqualFold(o, c.Input) || fold == strings.ToLower(o) {
				return ev.Result{Classes: []string{"parse:unicode-fold-no-claim"}}, nil
			}
		}
	}
	low := asciiLower(c.Input)
	if t := strings.TrimSpace(c.Input); t != c.Input && isASCII(c.Input) {
		// a documented name surrounded by white space: whether that is accepted is not settled; if it is, it must be the
		// constant of the trimmed name
		tl := asciiLower(t)
		switch c.Kind {
		case "action":
			if want, ok := oracle.Actions()[tl]; ok {
				a := seccomp.Action(0xdeadbeef)
				if err := a.Unpack(c.Input); err == nil && uint32(a) != want {
					return res, fmt.Errorf("Action.Unpack(%q) = %#x, the constant of %s is %#x", c.Input, uint32(a), tl, want)
				}
				return ev.Result{Classes: []string{"parse:padded-name-no-claim"}}, nil
			}
		case "operation":
			for _, o := range spec.Ops {
				if asciiLower(o) == tl {
					var op seccomp.Operation
					if err := op.Unpack(c.Input); err == nil && string(op) != o {
						return res, fmt.Errorf("Operation.Unpack(%q) = %q, want %q", c.Input, op, o)
					}
					return ev.Result{Classes: []string{"parse:padded-name-no-claim"}}, nil
				}
			}
		}
	}
	switch c.Kind {
	case "action":
		want, documented := oracle.Actions()[low]
		documented = documented && isASCII(c.Input)
		a := seccomp.Action(0xdeadbeef)
		var err error
		var pan any
		func() {
			defer func() { pan = recover() }()
			err = a.Unpack(c.Input)
		}()
		if pan != nil {
			return res, fmt.Errorf("Action.Unpack(%q) panicked: %v", c.Input, pan)
		}
		if documented {
			res.Classes = append(res.Classes, "parse:documented-name")
			if err != nil {
				return res, fmt.Errorf("Action.Unpack(%q) rejects a documented action name: %v", c.Input, err)
			}
			if uint32(a) != want {
				return res, fmt.Errorf("Action.Unpack(%q) = %#x, the kernel constant of %s is %#x", c.Input, uint32(a), low, want)
			}
			res.NonTrivial = c.Input != low
			if res.NonTrivial {
				res.Classes = append(res.Classes, "parse:non-canonical-case")
			}
			// printed form parses back
			var b seccomp.Action
			if err := b.Unpack(a.String()); err != nil || b != a {
				return res, fmt.Errorf("printed form %q of action %#x does not parse back (%v, %#x)", a.String(), uint32(a), err, uint32(b))
			}
			txt, _ := a.MarshalText()
			if err := b.Unpack(string(txt)); err != nil || b != a {
				return res, fmt.Errorf("marshalled form %q of action %#x does not parse back", txt, uint32(a))
			}
		} else {
			res.Classes = append(res.Classes, "parse:unknown-name")
			if err == nil && uint32(a) == 0x7fc00000 && isASCII(c.Input) && asciiLower(a.String()) == low {
				// SECCOMP_RET_USER_NOTIF is the one kernel action the pinned tree has no name for. A tree that gives it a
				// name of its own (the name prints back as itself and denotes that constant, not one of the seven) has
				// extended the documented set; it has not mapped an unknown name onto a documented action.
				return ev.Result{Classes: []string{"parse:new-kernel-action-no-claim"}}, nil
			}
			if err == nil {
				return res, fmt.Errorf("Action.Unpack(%q) accepts an undocumented name and yields %#x (%s)", c.Input, uint32(a), a)
			}
			res.NonTrivial = true
		}
	case "operation":
		var want string
		for _, o := range spec.Ops {
			if asciiLower(o) == low && isASCII(c.Input) {
				want = o
			}
		}
		o := seccomp.Operation("untouched")
		var err error
		var pan any
		func() {
			defer func() { pan = recover() }()
			err = o.Unpack(c.Input)
		}()
		if pan != nil {
			return res, fmt.Errorf("Operation.Unpack(%q) panicked: %v", c.Input, pan)
		}
		if want != "" {
			res.Classes = append(res.Classes, "parse:documented-name")
			if err != nil {
				return res, fmt.Errorf("Operation.Unpack(%q) rejects a documented operation: %v", c.Input, err)
			}
			if string(o) != want {
				return res, fmt.Errorf("Operation.Unpack(%q) = %q, want %q", c.Input, o, want)
			}
			res.NonTrivial = c.Input != want
			if res.NonTrivial {
				res.Classes = append(res.Classes, "parse:non-canonical-case")
			}
			var b seccomp.Operation
			if err := b.Unpack(string(o)); err != nil || b != o {
				return res, fmt.Errorf("printed form of operation %q does not parse back", o)
			}
			// "printed" is what the fmt verbs and the text encoders make of the value
			printed := map[string]string{"%v": fmt.Sprintf("%v", o), "%s": fmt.Sprintf("%s", o), "Sprint": fmt.Sprint(o)}
			if jb, err := json.Marshal(o); err == nil {
				var js string
				if json.Unmarshal(jb, &js) == nil {
					printed["json"] = js
				}
			}
			if yb, err := yaml.Marshal(o); err == nil {
				printed["yaml"] = strings.TrimSpace(string(yb))
			}
			for how, txt := range printed {
				var back seccomp.Operation
				if err := back.Unpack(txt); err != nil || back != o {
					return res, fmt.Errorf("operation %q is printed (%s) as %q, which does not parse back (%v, %q)", string(o), how, txt, err, string(back))
				}
			}
		} else {
			res.Classes = append(res.Classes, "parse:unknown-name")
			if err == nil {
				return res, fmt.Errorf("Operation.Unpack(%q) accepts an undocumented name and yields %q", c.Input, o)
			}
			res.NonTrivial = true
		}
	}
	return res, nil
}

func drawC14Parse(t *rapid.T) c14ParseCase {
	kind := []string{"action", "operation"}[rapid.IntRange(0, 1).Draw(t, "kind")]
	var names []string
	if kind == "action" {
		names = []string{"kill_thread", "kill_process", "trap", "errno", "trace", "log", "allow"}
	} else {
		names = spec.Ops
	}
	base := names[rapid.IntRange(0, len(names)-1).Draw(t, "base")]
	// random ASCII case
	mask := rapid.Uint32().Draw(t, "caseMask")
	b := []byte(base)
	for i := range b {
		if mask&(1<<uint(i%32)) != 0 {
			if b[i] >= 'a' && b[i] <= 'z' {
				b[i] -= 32
			} else if b[i] >= 'A' && b[i] <= 'Z' {
				b[i] += 32
			}
		}
	}
	s := string(b)
	switch rapid.IntRange(0, 12).Draw(t, "edit") {
	case 12:
		if len(s) > 0 {
			b := []byte(s)
			b[rapid.IntRange(0, len(b)-1).Draw(t, "flipAt")] ^= 1 << uint(rapid.IntRange(0, 7).Draw(t, "flipBit"))
			s = string(b)
		}
	case 0, 1, 2, 3, 4:
	case 5:
		s = s + rapid.StringMatching(`[a-z_ ]`).Draw(t, "suffix")
	case 6:
		s = rapid.StringMatching(`[a-z_ ]`).Draw(t, "prefix") + s
	case 7:
		s = strings.ReplaceAll(s, "_", "-")
		if !strings.Contains(s, "-") && len(s) > 2 {
			s = s[:len(s)/2] + "_" + s[len(s)/2:]
		}
	case 8:
		if len(s) > 1 {
			i := rapid.IntRange(0, len(s)-1).Draw(t, "del")
			s = s[:i] + s[i+1:]
		}
	case 9:
		s = rapid.String().Draw(t, "any")
	case 10:
		s = c14Dictionary[rapid.IntRange(0, len(c14Dictionary)-1).Draw(t, "fixed")]
		if rapid.Bool().Draw(t, "upper") {
			s = strings.ToUpper(s)
		}
	case 11:
		// unicode look-alikes and special-casing characters
		repl := map[string]string{"k": "K", "i": "İ", "s": "ſ", "a": "а", "e": "е", "o": "о"}
		for from, to := range repl {
			if strings.Contains(strings.ToLower(s), from) && rapid.Bool().Draw(t, "uni"+from) {
				i := strings.Index(strings.ToLower(s), from)
				s = s[:i] + to + s[i+1:]
				break
			}
		}
	}
	return c14ParseCase{Kind: kind, Input: s}
}

// c14Dictionary: strings that are NOT documented names but that a parser could plausibly have been taught as aliases
// (synonyms, the kernel's and libseccomp's spellings, Go identifier names, numbers, symbols, neighbouring vocabulary).
// None of them may parse (those that are a documented name in another letter case are judged as such by the check).
var c14Dictionary = func() []string {
	d := []string{"", " ", "\t", "\n", "allow\n", "ALLOW ", " allow", "allow\x00", "\x00",
		// synonyms of actions
		"permit", "permitted", "pass", "accept", "allowed", "ok", "yes", "true", "none", "default", "any", "all", "*",
		"deny", "denied", "block", "drop", "reject", "forbid", "refuse", "false", "no", "fail", "error", "eperm", "enosys",
		"kill", "killed", "die", "abort", "sigsys", "sigkill", "terminate", "kill-thread", "kill-process", "killthread",
		"killprocess", "kill_proc", "kill_threads", "kill_all", "thread", "process", "notify", "user_notif", "notif",
		"audit", "logging", "logged", "warn", "tracer", "ptrace", "traced", "signal", "trap_", "traps", "errno_", "errnos",
		"errno(1)", "errno:1", "errno=1", "errno 1", "allow,log", "allow|log", "log+allow", "unknown", "invalid", "undefined",
		// the kernel's, libseccomp's and OCI's spellings
		"SECCOMP_RET_ALLOW", "SECCOMP_RET_ERRNO", "SECCOMP_RET_KILL", "SECCOMP_RET_KILL_THREAD", "SECCOMP_RET_KILL_PROCESS",
		"SECCOMP_RET_TRAP", "SECCOMP_RET_TRACE", "SECCOMP_RET_LOG", "SECCOMP_RET_USER_NOTIF", "RET_ALLOW", "ret_allow",
		"SCMP_ACT_ALLOW", "SCMP_ACT_ERRNO", "SCMP_ACT_KILL", "SCMP_ACT_KILL_THREAD", "SCMP_ACT_KILL_PROCESS", "SCMP_ACT_TRAP",
		"SCMP_ACT_TRACE", "SCMP_ACT_LOG", "SCMP_ACT_NOTIFY", "ACT_ALLOW", "act_allow",
		"SCMP_CMP_NE", "SCMP_CMP_LT", "SCMP_CMP_LE", "SCMP_CMP_EQ", "SCMP_CMP_GE", "SCMP_CMP_GT", "SCMP_CMP_MASKED_EQ",
		// Go identifiers of the package
		"ActionAllow", "ActionErrno", "ActionKillThread", "ActionKillProcess", "ActionTrap", "ActionTrace", "ActionLog",
		"Action", "Operation", "seccomp.ActionAllow", "seccomp.Equal", "FilterFlagTSync", "tsync", "FilterFlagLog",
		// numbers
		"0", "1", "2", "-1", "0x0", "0x7fff0000", "2147418112", "0x00050001", "327681", "0x80000000", "2147483648",
		"0x00030000", "0x7ffc0000", "0x7ff00000", "0x00050000", "7fff0000", "0X7FFF0000", "0b0", "0o0", "1e0", "NaN",
		// operation aliases and symbols
		"eq", "ne", "neq", "lt", "le", "lte", "gt", "ge", "gte", "equal", "equals", "notequal", "not_equal", "not-equal",
		"not equal", "less", "lessthan", "less_than", "lessorequal", "less_or_equal", "lessequal", "greater", "greaterthan",
		"greater_than", "greaterorequal", "greater_or_equal", "greaterequal", "bitsset", "bits_set", "bitsnotset",
		"bits_not_set", "bitset", "bitnotset", "bits", "mask", "masked", "masked_eq", "maskedequal", "and", "nand", "or", "not",
		"==", "=", "!=", "<>", "<", "<=", ">", ">=", "=<", "=>", "&", "!&", "&!", "&=", "&==0", "&!=0", "~", "!", "in", "is",
		"Equal|NotEqual", "Equal,NotEqual", "Equal ", " Equal", "Equal\n", "Equals", "NotEquals", "LessThen", "GreaterThen",
		"LessOrEquals", "GreaterOrEquals", "BitSet", "BitNotSet", "BitsUnset", "BitsClear", "BitsNotSet ", "Set", "NotSet",
		// arguments / other vocabulary of the configuration
		"arg0", "argument", "value", "syscalls", "names", "default_action", "action", "names_with_args", "null", "nil", "~",
	}
	// one-edit neighbours of the documented names: each with its first/last letter dropped or doubled and with the
	// underscore dropped
	for _, n := range append([]string{"kill_thread", "kill_process", "trap", "errno", "trace", "log", "allow"}, spec.Ops...) {
		d = append(d, n[1:], n[:len(n)-1], n+n[len(n)-1:], n[:1]+n, strings.ReplaceAll(n, "_", ""), n+"s", n+"ed", "no"+n, "not"+n, "!"+n, n+"!")
	}
	return d
}()

// Every dictionary word, for both parsers, as written, lower-cased, upper-cased and capitalised.
func TestC14ParserDictionary(t *testing.T) {
	ev.Register("C14", "parse", checkC14Parse)
	n := 0
	for _, w := range c14Dictionary {
		forms := []string{w, strings.ToLower(w), strings.ToUpper(w)}
		if len(w) > 1 {
			forms = append(forms, strings.ToUpper(w[:1])+strings.ToLower(w[1:]))
		}
		for _, f := range forms {
			for _, kind := range []string{"action", "operation"} {
				n++
				if !ev.CheckOne(t, "C14", "parse", c14ParseCase{Kind: kind, Input: f}, checkC14Parse) {
					return
				}
			}
		}
	}
	// every single-bit corruption of every documented name, in lower and upper case (a flipped bit 5 of a letter is a
	// case variant and must still parse; everything else - '_' turned into DEL or a blank, a letter into its neighbour,
	// bytes >= 0x80 - is not a documented name)
	for _, name := range append([]string{"kill_thread", "kill_process", "trap", "errno", "trace", "log", "allow"}, spec.Ops...) {
		for _, base := range []string{name, strings.ToLower(name), strings.ToUpper(name)} {
			for i := 0; i < len(base); i++ {
				for bit := uint(0); bit < 8; bit++ {
					b := []byte(base)
					b[i] ^= 1 << bit
					for _, kind := range []string{"action", "operation"} {
						n++
						pc := c14ParseCase{Kind: kind, Input: string(b)}
						if !utf8.Valid(b) {
							pc = c14ParseCase{Kind: kind, Hex: hex.EncodeToString(b)}
						}
						if !ev.CheckOne(t, "C14", "parse", pc, checkC14Parse) {
							return
						}
					}
				}
			}
		}
	}
	ev.Exhaustive("C14", "alias dictionary x 4 letter cases x both parsers; all single-bit corruptions of the documented names", n)
}

func TestC14Parsers(t *testing.T) {
	ev.Prop(t, "C14", "parse", drawC14Parse, checkC14Parse)
}

// Every documented name in every ASCII case pattern (exhaustive: 2^len each, capped at 4096 per name).
func TestC14ParserNamesExhaustive(t *testing.T) {
	ev.Register("C14", "parse", checkC14Parse)
	n := 0
	do := func(kind, name string) bool {
		letters := 0
		for i := 0; i < len(name); i++ {
			if name[i] >= 'a' && name[i] <= 'z' || name[i] >= 'A' && name[i] <= 'Z' {
				letters++
			}
		}
		total := 1 << uint(letters)
		step := 1
		if total > 4096 {
			step = total/4096 + 1
		}
		for m := 0; m < total; m += step {
			b := []byte(name)
			bit := 0
			for i := range b {
				isL := b[i] >= 'a' && b[i] <= 'z' || b[i] >= 'A' && b[i] <= 'Z'
				if !isL {
					continue
				}
				if m&(1<<uint(bit)) != 0 {
					b[i] ^= 0x20
				}
				bit++
			}
			n++
			if !ev.CheckOne(t, "C14", "parse", c14ParseCase{Kind: kind, Input: string(b)}, checkC14Parse) {
				return false
			}
		}
		return true
	}
	for _, a := range []string{"kill_thread", "kill_process", "trap", "errno", "trace", "log", "allow"} {
		if !do("action", a) {
			return
		}
	}
	for _, o := range spec.Ops {
		if !do("operation", o) {
			return
		}
	}
	ev.Exhaustive("C14", "documented names x ASCII case patterns (<= 4096 per name)", n)
}

// ---------- configuration round trips ----------

type c14CfgCase struct {
	Policy spec.Policy `json:"policy"`
	Seed   uint64      `json:"seed"`
	Path   string      `json:"path"` // writer / yaml-marshal / json-marshal
}

type sandboxConfig struct {
	Seccomp seccomp.Policy
}

// loadLikeSandbox is the documented configuration path: go-ucfg's YAML loader
// and Unpack into struct{Seccomp Policy}, exactly as cmd/sandbox does.
func loadLikeSandbox(text []byte) (*seccomp.Policy, error) {
	conf, err := uyaml.NewConfig(text)
	if err != nil {
		return nil, err
	}
	var cfg sandboxConfig
	if err := conf.Unpack(&cfg); err != nil {
		return nil, err
	}
	return &cfg.Seccomp, nil
}

func drawC14Cfg(t *rapid.T) c14CfgCase {
	prof := []gen.Profile{gen.Small, gen.CondHeavy, gen.CondHeavy, gen.NamesOnly}[rapid.IntRange(0, 3).Draw(t, "profile")]
	p := gen.Policy(t, "x86_64", gen.Opts{Profile: prof, MaxInsns: 3500, NamedActionsOnly: true})
	return c14CfgCase{Policy: p, Seed: rapid.Uint64().Draw(t, "seed"),
		Path: []string{"writer", "writer", "yaml-marshal", "json-marshal", "writer-extra-keys"}[rapid.IntRange(0, 4).Draw(t, "path")]}
}

func assembleHost(p *seccomp.Policy) (insts []bpf.Instruction, err error, pan any) {
	defer func() { pan = recover() }()
	insts, err = p.Assemble()
	return
}

func checkC14Cfg(raw json.RawMessage) (ev.Result, error) {
	var c c14CfgCase
	if err := json.Unmarshal(raw, &c); err != nil {
		return ev.Result{}, ev.Inconclusivef("bad case: %v", err)
	}
	if hostArchName() != "x86_64" {
		return ev.Result{}, ev.Inconclusivef("configuration round trip is only set up for an x86_64 host")
	}
	p := c.Policy
	p.Arch = "" // the loader cannot choose an architecture: both sides compile for the host
	lit := p.ToSeccomp()
	want, err, pan := assembleHost(lit)
	if pan != nil {
		return ev.Result{}, fmt.Errorf("Assemble panicked: %v", pan)
	}
	if err != nil {
		return ev.Result{Classes: []string{"rejected-by-compiler"}}, nil
	}
	var text []byte
	switch c.Path {
	case "writer":
		text = []byte(cfgwriter.YAML(&p, c.Seed))
	case "writer-extra-keys":
		// the same text with keys outside the documented dialect in the group mappings (arch: i386, comment: ...): the text
		// is refused (no claim), or it denotes the policy it denotes without them
		text = []byte(cfgwriter.YAMLExtra(&p, c.Seed, func(gi int) string { return c15ExtraKey(c.Seed|1, gi) }))
		if _, lerr := loadLikeSandbox(text); lerr != nil {
			return ev.Result{Classes: []string{"cfg:keys-outside-the-dialect-refused(no-claim)"}}, nil
		}
	case "yaml-marshal":
		text, err = yaml.Marshal(struct {
			Seccomp *seccomp.Policy `yaml:"seccomp"`
		}{p.ToSeccomp()})
	case "json-marshal":
		text, err = json.Marshal(struct {
			Seccomp *seccomp.Policy `json:"seccomp"`
		}{p.ToSeccomp()})
	default:
		return ev.Result{}, ev.Inconclusivef("unknown path %q", c.Path)
	}
	if err != nil {
		return ev.Result{}, fmt.Errorf("%s failed: %v", c.Path, err)
	}
	loaded, err := loadLikeSandbox(text)
	if err != nil {
		return ev.Result{}, fmt.Errorf("policy text produced by %s is not accepted by the configuration path: %v\n%s", c.Path, err, clip(string(text), 1200))
	}
	got, err, pan := assembleHost(loaded)
	if pan != nil {
		return ev.Result{}, fmt.Errorf("Assemble of the loaded policy panicked: %v", pan)
	}
	if err != nil {
		return ev.Result{}, fmt.Errorf("loaded policy does not compile although the literal one does: %v\n%s", err, clip(string(text), 1200))
	}
	if !reflect.DeepEqual(got, want) {
		return ev.Result{}, fmt.Errorf("policy read back through %s compiles to a different program (%d vs %d instructions); first difference at %d\n%s",
			c.Path, len(got), len(want), firstDiff(got, want), clip(string(text), 1500))
	}
	res := ev.Result{Classes: []string{"cfg:" + c.Path}}
	if c.Path == "json-marshal" {
		// Beyond the letter of the statement (which names the configuration path): where encoding/json can read a
		// marshalled condition list back at all, it has to give the same conditions - operands are 64-bit integers, and a
		// decoder that goes through floating point loses the low bits of large ones.
		for _, g := range lit.Syscalls {
			for _, nc := range g.NamesWithCondtions {
				b, err := json.Marshal(nc.Conditions)
				if err != nil {
					continue
				}
				var back seccomp.ArgumentConditions
				if err := json.Unmarshal(b, &back); err != nil {
					res.Classes = append(res.Classes, "encoding/json-cannot-read-conditions-back(no-claim)")
					continue
				}
				if !reflect.DeepEqual(back, nc.Conditions) {
					return ev.Result{}, fmt.Errorf("conditions marshalled to JSON (%s) and read back with encoding/json are %+v, were %+v", clip(string(b), 400), back, nc.Conditions)
				}
				res.Classes = append(res.Classes, "conditions-through-encoding/json")
			}
		}
	}
	for _, g := range p.Groups {
		res.Classes = append(res.Classes, "cfg-action:"+oracle.ActionName(g.Action))
		for _, ce := range g.Conds {
			for _, cd := range ce.Conds {
				res.Classes = append(res.Classes, "cfg-op:"+cd.Op)
				if cd.Arg != 0 {
					res.NonTrivial = true
				}
				if cd.Arg == 5 {
					res.Classes = append(res.Classes, "cfg-index-5")
				}
				if cd.Val >= 1<<32 {
					res.NonTrivial = true
					res.Classes = append(res.Classes, "cfg-operand>=2^32")
				}
				if cd.Val >= 1<<63 {
					res.Classes = append(res.Classes, "cfg-operand>=2^63")
				}
				if cd.Val == ^uint64(0) {
					res.Classes = append(res.Classes, "cfg-operand-2^64-1")
				}
			}
		}
		if g.Action != oracle.Const("SECCOMP_RET_ALLOW") && g.Action != oracle.Const("SECCOMP_RET_ERRNO") {
			res.NonTrivial = true
		}
	}
	res.Classes = append(res.Classes, "cfg-default:"+oracle.ActionName(p.Default))
	return res, nil
}

func clip(s string, n int) string {
	if len(s) > n {
		return s[:n] + "…"
	}
	return s
}

func firstDiff(a, b []bpf.Instruction) int {
	for i := 0; i < len(a) && i < len(b); i++ {
		if !reflect.DeepEqual(a[i], b[i]) {
			return i
		}
	}
	if len(a) < len(b) {
		return len(a)
	}
	return len(b)
}

func TestC14Config(t *testing.T) {
	ev.Prop(t, "C14", "config", drawC14Cfg, checkC14Cfg)
}
