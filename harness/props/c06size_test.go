package props

import (
	"encoding/json"
	"fmt"
	"sort"
	"strings"
	"testing"

	"pgregory.net/rapid"

	"verif/harness/internal/cbpf"
	"verif/harness/internal/ev"
	"verif/harness/internal/gen"
	"verif/harness/internal/oracle"
	"verif/harness/internal/spec"
)

// C06, consequence clause — "the meaning of a compiled policy does not depend on its size". Metamorphic, no reference
// model involved: a small policy P and the same policy padded with N further names (in a new group in front, in a new
// group at the end, or appended to one of P's groups; N chosen so that the program crosses the 255-instruction limits of
// conditional jumps, where bridges and the long forms of the prologue jumps start) must answer every event alike whose
// syscall number is not one of the padding names: events of the policy's own architecture, of foreign architectures
// and, on x86_64, with the x32 bit.

type c06SizeCase struct {
	Policy   spec.Policy `json:"policy"`
	Seed     uint64      `json:"seed"`
	Pad      int         `json:"pad"`                 // number of padding names
	Where    string      `json:"where"`               // front / back / into:<group index>
	PadAct   uint32      `json:"pad_action"`          // action of a new padding group
	PadOrder string      `json:"pad_order,omitempty"` // "" random subset / low / high (by syscall number)
	// Prev: what the Policy values went through before ("edited-conds": the same value, with the same numbers of names
	// and conditions, compiled other names and conditions before and was then edited in place)
	Prev string `json:"prev,omitempty"`
}

func drawC06Size(t *rapid.T) c06SizeCase {
	a := drawArch(t)
	prof := []gen.Profile{gen.Small, gen.Small, gen.CondHeavy, gen.Degenerate}[rapid.IntRange(0, 3).Draw(t, "profile")]
	c := c06SizeCase{Policy: gen.Policy(t, a, gen.Opts{Profile: prof, MaxGroups: 4}), Seed: rapid.Uint64().Draw(t, "seed")}
	switch rapid.IntRange(0, 3).Draw(t, "padClass") {
	case 0:
		c.Pad = rapid.IntRange(1, 40).Draw(t, "padSmall")
	case 1:
		c.Pad = rapid.IntRange(240, 262).Draw(t, "padAround255")
	default:
		c.Pad = rapid.IntRange(41, 330).Draw(t, "pad")
	}
	acts := oracle.ActionList()
	c.PadAct = acts[rapid.IntRange(0, len(acts)-1).Draw(t, "padAction")]
	switch k := rapid.IntRange(0, 2).Draw(t, "where"); {
	case k == 0:
		c.Where = "front"
	case k == 1 || len(c.Policy.Groups) == 0:
		c.Where = "back"
	default:
		c.Where = fmt.Sprintf("into:%d", rapid.IntRange(0, len(c.Policy.Groups)-1).Draw(t, "intoGroup"))
	}
	if strings.HasPrefix(c.Where, "into:") && rapid.IntRange(0, 2).Draw(t, "aroundCapacity") == 0 {
		// the group ends up with about 64, 128 or 256 syscalls (where tables kept per group tend to grow), a few of its
		// conditional entries before that point and a few behind
		var gi int
		fmt.Sscanf(c.Where, "into:%d", &gi)
		g := c.Policy.Groups[gi]
		distinct := map[string]bool{}
		for _, ce := range g.Conds {
			distinct[ce.Name] = true
		}
		target := []int{64, 64, 128, 256}[rapid.IntRange(0, 3).Draw(t, "capacity")]
		if pad := target - len(g.Names) - rapid.IntRange(0, len(distinct)+1).Draw(t, "capacityOffset") + rapid.IntRange(-1, 1).Draw(t, "capacityDelta"); pad >= 1 {
			c.Pad = pad
		}
	}
	// the padding names are a random subset, or the lowest / highest numbered free names (so that the syscalls the small
	// policy speaks about lie above / below every added one)
	c.PadOrder = []string{"", "", "low", "high"}[rapid.IntRange(0, 3).Draw(t, "padOrder")]
	if rapid.IntRange(0, 3).Draw(t, "history") == 0 {
		c.Prev = "edited-conds"
	}
	return c
}

func checkC06Size(raw json.RawMessage) (ev.Result, error) {
	var c c06SizeCase
	if err := json.Unmarshal(raw, &c); err != nil {
		return ev.Result{}, ev.Inconclusivef("bad case: %v", err)
	}
	p := &c.Policy
	if c.Prev != "" && c.Prev != "edited-conds" {
		return ev.Result{}, ev.Inconclusivef("unknown history %q", c.Prev)
	}
	small, cerr, pan := compilePolicyAfter(p, c.Prev)
	if pan != nil {
		return ev.Result{}, fmt.Errorf("Assemble panicked: %v", pan)
	}
	if cerr != nil {
		return ev.Result{Classes: []string{"rejected-by-compiler"}}, nil
	}
	if err := small.encode(); err != nil {
		return ev.Result{}, fmt.Errorf("program does not encode: %v", err)
	}
	// padding names: not used anywhere in P
	used := map[string]bool{}
	for _, g := range p.Groups {
		for _, n := range g.Names {
			used[n] = true
		}
		for _, ce := range g.Conds {
			used[ce.Name] = true
		}
	}
	var free []string
	for _, n := range gen.Universe(p.Arch) {
		if !used[n] {
			free = append(free, n)
		}
	}
	pad := gen.Subset(free, c.Seed^0x9e3779b97f4a7c15, c.Pad)
	if c.PadOrder == "low" || c.PadOrder == "high" {
		tbl := oracle.Table(p.Arch)
		sorted := append([]string(nil), free...)
		sort.Slice(sorted, func(i, j int) bool {
			if c.PadOrder == "low" {
				return tbl[sorted[i]] < tbl[sorted[j]]
			}
			return tbl[sorted[i]] > tbl[sorted[j]]
		})
		if c.Pad < len(sorted) {
			sorted = sorted[:c.Pad]
		}
		pad = sorted
	}
	if len(pad) == 0 {
		return ev.Result{}, ev.Inconclusivef("no free names for padding")
	}
	padNr := map[uint32]bool{}
	for _, n := range pad {
		padNr[uint32(oracle.Table(p.Arch)[n])] = true
	}
	big := spec.Policy{Arch: p.Arch, Default: p.Default}
	for _, g := range p.Groups {
		g2 := g
		g2.Names = append([]string(nil), g.Names...)
		big.Groups = append(big.Groups, g2)
	}
	var into int
	switch {
	case c.Where == "front":
		big.Groups = append([]spec.Group{{Action: c.PadAct, Names: pad}}, big.Groups...)
	case c.Where == "back":
		big.Groups = append(big.Groups, spec.Group{Action: c.PadAct, Names: pad})
	default:
		if _, err := fmt.Sscanf(c.Where, "into:%d", &into); err != nil || into < 0 || into >= len(big.Groups) {
			return ev.Result{}, ev.Inconclusivef("bad padding position %q", c.Where)
		}
		big.Groups[into].Names = append(big.Groups[into].Names, pad...)
	}
	padded, cerr, pan := compilePolicyAfter(&big, c.Prev)
	if pan != nil {
		return ev.Result{}, fmt.Errorf("Assemble panicked on the padded policy: %v", pan)
	}
	if cerr != nil {
		return ev.Result{}, fmt.Errorf("the policy is accepted, the same policy with %d further names (%s) is rejected: %v", len(pad), c.Where, cerr)
	}
	if err := padded.encode(); err != nil {
		return ev.Result{}, fmt.Errorf("padded program does not encode: %v", err)
	}
	evs := gen.Events(p, c.Seed, gen.EventOpts{Own: true, Foreign: true, X32: p.Arch == "x86_64", PerNr: 2, MaxNrs: 60, Consts: small.consts})
	bo := hostOrder()
	n, foreign, x32 := 0, 0, 0
	own := oracle.ArchID(p.Arch)
	for _, e := range evs {
		if e.Arch == own && padNr[e.Nr] {
			continue
		}
		w := e.Words(bo)
		a, err := cbpf.Run(small.raw, &w, nil)
		if err != nil {
			return ev.Result{}, fmt.Errorf("program fails on %s: %v", fmtEvent(e), err)
		}
		b, err := cbpf.Run(padded.raw, &w, nil)
		if err != nil {
			return ev.Result{}, fmt.Errorf("padded program fails on %s: %v", fmtEvent(e), err)
		}
		if a != b {
			return ev.Result{}, fmt.Errorf("event %s: the policy (%d instructions) answers %#x, the same policy with %d further names %s (%d instructions) answers %#x; none of the added names is the event's syscall",
				fmtEvent(e), len(small.raw), a, len(pad), c.Where, len(padded.raw), b)
		}
		n++
		if e.Arch != own {
			foreign++
		} else if p.Arch == "x86_64" && e.Nr >= 0x40000000 {
			x32++
		}
	}
	res := ev.Result{Classes: []string{"policy-size", "pad:" + c.Where[:4]}, Sub: n}
	if c.Prev != "" {
		res.Classes = append(res.Classes, "values-compiled-other-entries-before")
	}
	if len(small.raw) <= 255 && len(padded.raw) > 255 {
		res.NonTrivial = true
		res.Classes = append(res.Classes, "padding-crosses-255-instructions")
		if foreign > 0 {
			res.Classes = append(res.Classes, "crossing-with-foreign-architecture-events")
		}
		if x32 > 0 {
			res.Classes = append(res.Classes, "crossing-with-x32-events")
		}
		if p.Default == oracle.Const("SECCOMP_RET_ERRNO") {
			res.Classes = append(res.Classes, "crossing-with-errno-default")
		}
	}
	return res, nil
}

func TestC06PolicySize(t *testing.T) {
	ev.Prop(t, "C06", "policy-size", drawC06Size, checkC06Size)
}
