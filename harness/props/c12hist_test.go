package props

import (
	"encoding/json"
	"fmt"
	"os"
	"testing"

	seccomp "github.com/elastic/go-seccomp-bpf"
	"github.com/elastic/go-seccomp-bpf/arch"
	"pgregory.net/rapid"

	"verif/harness/internal/ev"
	"verif/harness/internal/gen"
	"verif/harness/internal/oracle"
	"verif/harness/internal/sitemodel"
	"verif/harness/internal/spec"
)

// C12, histories — the tables are shared, package-level data: lookups stay mutual inverses and deterministic only if
// nothing the library does ever writes to them. A history is a sequence of uses of the public API (compiling valid and
// invalid policies, architecture lookups, syscall extraction from disassembly listings that contain numbers and names
// the tables do not know, text conversions); after every step all five tables must still equal the copy taken when the
// process started, and both directions must still be inverses of each other.

type c12Tables struct {
	names   map[string]int
	numbers map[int]string
	id      uint32
	mask    uint32
}

func c12SnapshotTables() map[string]c12Tables {
	out := map[string]c12Tables{}
	for _, a := range oracle.AllTables {
		info := spec.ArchInfo(a)
		t := c12Tables{names: map[string]int{}, numbers: map[int]string{}, id: uint32(info.ID), mask: uint32(info.SeccompMask)}
		for k, v := range info.SyscallNames {
			t.names[k] = v
		}
		for k, v := range info.SyscallNumbers {
			t.numbers[k] = v
		}
		out[a] = t
	}
	return out
}

// taken during package initialisation, before any test code ran
var c12Pristine = c12SnapshotTables()

func c12TablesUnchanged() error {
	for _, a := range oracle.AllTables {
		info := spec.ArchInfo(a)
		want := c12Pristine[a]
		if uint32(info.ID) != want.id || uint32(info.SeccompMask) != want.mask {
			return fmt.Errorf("%s: audit identifier / mask changed: %#x/%#x, at process start %#x/%#x", a, uint32(info.ID), uint32(info.SeccompMask), want.id, want.mask)
		}
		if len(info.SyscallNumbers) != len(want.numbers) || len(info.SyscallNames) != len(want.names) {
			for n, name := range info.SyscallNumbers {
				if _, ok := want.numbers[n]; !ok {
					return fmt.Errorf("%s: the number-to-name table grew from %d to %d entries: %d -> %q appeared", a, len(want.numbers), len(info.SyscallNumbers), n, name)
				}
			}
			for name, n := range info.SyscallNames {
				if _, ok := want.names[name]; !ok {
					return fmt.Errorf("%s: the name-to-number table grew from %d to %d entries: %q -> %d appeared", a, len(want.names), len(info.SyscallNames), name, n)
				}
			}
			return fmt.Errorf("%s: table sizes changed: %d numbers / %d names, at process start %d / %d", a, len(info.SyscallNumbers), len(info.SyscallNames), len(want.numbers), len(want.names))
		}
		for n, name := range want.numbers {
			if got, ok := info.SyscallNumbers[n]; !ok || got != name {
				return fmt.Errorf("%s: number %d was %q at process start, now %q (present %v)", a, n, name, got, ok)
			}
		}
		for name, n := range want.names {
			if got, ok := info.SyscallNames[name]; !ok || got != n {
				return fmt.Errorf("%s: name %q was %d at process start, now %d (present %v)", a, name, n, got, ok)
			}
		}
		// mutual inverses (also asserted entry by entry by unit entry; here after a history)
		for n, name := range info.SyscallNumbers {
			if back, ok := info.SyscallNames[name]; !ok || back != n {
				return fmt.Errorf("%s: number %d -> %q -> %d (present %v): lookups are no longer inverses", a, n, name, back, ok)
			}
		}
	}
	return nil
}

// c12RestoreTables puts the live tables back to the copy taken at process start (after a violation, so that shrinking
// and later cases start from the same state).
func c12RestoreTables() {
	for _, a := range oracle.AllTables {
		info := spec.ArchInfo(a)
		want := c12Pristine[a]
		for k := range info.SyscallNames {
			delete(info.SyscallNames, k)
		}
		for k := range info.SyscallNumbers {
			delete(info.SyscallNumbers, k)
		}
		for k, v := range want.names {
			info.SyscallNames[k] = v
		}
		for k, v := range want.numbers {
			info.SyscallNumbers[k] = v
		}
		info.ID, info.SeccompMask = arch.AuditArch(want.id), int(want.mask)
	}
}

type c12HistOp struct {
	Op      string             `json:"op"` // extract / assemble / getinfo / text
	Listing *sitemodel.Listing `json:"listing,omitempty"`
	Seed    uint64             `json:"seed,omitempty"`
	Policy  *spec.Policy       `json:"policy,omitempty"`
	Name    string             `json:"name,omitempty"`
}

type c12HistCase struct {
	Ops []c12HistOp `json:"ops"`
}

func drawC12Hist(t *rapid.T) c12HistCase {
	var c c12HistCase
	n := rapid.IntRange(1, 6).Draw(t, "nops")
	for i := 0; i < n; i++ {
		switch rapid.IntRange(0, 5).Draw(t, "op") {
		case 0, 1, 2:
			l := drawListing(t)
			c.Ops = append(c.Ops, c12HistOp{Op: "extract", Listing: &l, Seed: rapid.Uint64().Draw(t, "seed")})
		case 3:
			a := drawArch(t)
			p := gen.Policy(t, a, gen.Opts{Profile: gen.Small})
			if rapid.Bool().Draw(t, "unknownName") && len(p.Groups) > 0 {
				p.Groups[0].Names = append(p.Groups[0].Names, []string{"no_such_syscall", "", "READ", "read ", "999"}[rapid.IntRange(0, 4).Draw(t, "badName")])
			}
			c.Ops = append(c.Ops, c12HistOp{Op: "assemble", Policy: &p})
		case 4:
			names := []string{"", "x86_64", "AMD64", "i386", "386", "arm", "ARM64", "aarch64", "x32", "X32", "mips", "ppc64le", "s390x", "riscv64", "nope", "x86_64 ", "X86_64"}
			c.Ops = append(c.Ops, c12HistOp{Op: "getinfo", Name: names[rapid.IntRange(0, len(names)-1).Draw(t, "name")]})
		default:
			c.Ops = append(c.Ops, c12HistOp{Op: "text", Seed: rapid.Uint64().Draw(t, "seed")})
		}
	}
	return c
}

func checkC12Hist(raw json.RawMessage) (ev.Result, error) {
	var c c12HistCase
	if err := json.Unmarshal(raw, &c); err != nil {
		return ev.Result{}, ev.Inconclusivef("bad case: %v", err)
	}
	if err := c12TablesUnchanged(); err != nil {
		return ev.Result{}, ev.Inconclusivef("the tables were modified before this case started (an earlier case of this process): %v", err)
	}
	res := ev.Result{Classes: []string{"history"}}
	dir, err := os.MkdirTemp(os.Getenv("VERIF_TMP"), "c12")
	if err != nil {
		return res, ev.Inconclusivef("%v", err)
	}
	defer os.RemoveAll(dir)
	unknownSeen := false
	for i, op := range c.Ops {
		desc := op.Op
		func() {
			defer func() { recover() }() // panics are other properties' business; the tables are this one's
			switch op.Op {
			case "extract":
				if op.Listing == nil {
					return
				}
				desc = fmt.Sprintf("syscall extraction from a %s listing of %d functions", op.Listing.Arch, len(op.Listing.Funcs))
				tbl := c12Pristine[op.Listing.Arch].numbers
				for _, f := range op.Listing.Funcs {
					for _, it := range f.Items {
						if it.Kind == sitemodel.RawSite || it.Kind == sitemodel.WrapperSite {
							if _, ok := tbl[it.Num]; !ok {
								unknownSeen = true
							}
						}
					}
				}
				text, _ := sitemodel.Render(op.Listing, op.Seed)
				path, err := writeTemp(dir, fmt.Sprintf("l%d.txt", i), text)
				if err != nil {
					return
				}
				extract(op.Listing.Arch, path)
			case "assemble":
				if op.Policy == nil {
					return
				}
				desc = fmt.Sprintf("compilation of a policy for %s", op.Policy.Arch)
				sp := op.Policy.ToSeccomp()
				sp.Assemble()
				sp.Dump(devNull{})
			case "getinfo":
				desc = fmt.Sprintf("GetInfo(%q)", op.Name)
				arch.GetInfo(op.Name)
			case "text":
				a := seccomp.Action(uint32(op.Seed))
				_ = a.String()
				var b seccomp.Action
				b.Unpack(a.String())
				_ = seccomp.FilterFlag(uint32(op.Seed >> 32)).String()
			}
		}()
		if err := c12TablesUnchanged(); err != nil {
			c12RestoreTables()
			return res, fmt.Errorf("after step %d of %d (%s): %v", i+1, len(c.Ops), desc, err)
		}
		// lookups are deterministic: the empty name keeps meaning the architecture of this build, every alias its table
		if info, err := arch.GetInfo(""); err != nil || info != spec.ArchInfo(hostArchName()) {
			return res, fmt.Errorf("after step %d of %d (%s): GetInfo(\"\") no longer returns the table of the build's architecture (%v, %v)", i+1, len(c.Ops), desc, info, err)
		}
		for alias, table := range archAliases {
			if info, err := arch.GetInfo(alias); err != nil || info != spec.ArchInfo(table) {
				return res, fmt.Errorf("after step %d of %d (%s): GetInfo(%q) no longer returns the %s table", i+1, len(c.Ops), desc, alias, table)
			}
		}
	}
	if unknownSeen {
		res.NonTrivial = true
		res.Classes = append(res.Classes, "history-with-syscall-numbers-unknown-to-the-table")
	}
	res.Sub = len(c.Ops)
	return res, nil
}

type devNull struct{}

func (devNull) Write(p []byte) (int, error) { return len(p), nil }

func TestC12TablesStable(t *testing.T) {
	ev.Prop(t, "C12", "history", drawC12Hist, checkC12Hist)
}
