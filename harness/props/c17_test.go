package props

import (
	"encoding/json"
	"fmt"
	"os"
	"path/filepath"
	"sort"
	"strings"
	"testing"
	"time"

	"pgregory.net/rapid"

	"verif/harness/internal/ev"
	"verif/harness/internal/gen"
	"verif/harness/internal/sitemodel"
)

// C17 — the profiler never trusts an incomplete cached disassembly.

type c17Op struct {
	Op    string `json:"op"`              // run-ok / run-crash / run-toolfail / run-toolkilled / run-toolmissing / change-binary
	Class string `json:"class,omitempty"` // where the output stops: zero, first-line, flush-1, flush, flush+1, line, site-before, site-inside, site-after, all-but-one, frac
	Frac  int    `json:"frac,omitempty"`  // per mille, selects among the candidates of the class
	Code  int    `json:"code,omitempty"`  // run-toolfail: exit status of the tool; run-toolkilled: signal number
	// Debug: the faulty run is started with -format config -d (other flags than the runs around it)
	Debug bool `json:"debug,omitempty"`
	// PidNS (run-overlap): each of the two runs is the first process of a pid namespace of its own, as two containers
	// that share the home directory (both profilers have the same pid)
	PidNS bool `json:"pidns,omitempty"`
}

type c17Case struct {
	GOARCH   string  `json:"goarch"`
	ListSeed uint64  `json:"list_seed"`
	Sites    int     `json:"sites"`
	Distinct int     `json:"distinct"`
	Ops      []c17Op `json:"ops"`
	// OtherTmp: the profiler's TMPDIR lies on another file system than its home directory (a rename from one to the
	// other fails; whatever the implementation does instead must be as safe)
	OtherTmp bool `json:"other_tmp,omitempty"`
	// NameLen > 0: the binary's file name has that many bytes (close to NAME_MAX: names derived from it - cache file,
	// temporary file - may not fit any more; failing is fine, trusting a partial dump is not)
	NameLen int `json:"name_len,omitempty"`
	// Stale: before the first step the cache already holds the complete dump of an earlier build of the binary under
	// the same path (a normal run, then the binary changed)
	Stale bool `json:"stale,omitempty"`
}

var c17Classes = []string{"zero", "first-line", "flush-1", "flush", "flush+1", "line", "site-before", "site-inside", "site-after", "all-but-one", "frac"}

func drawC17(t *rapid.T) c17Case {
	c := c17Case{GOARCH: []string{"amd64", "amd64", "386"}[rapid.IntRange(0, 2).Draw(t, "goarch")], ListSeed: rapid.Uint64().Draw(t, "listSeed")}
	c.Sites = rapid.IntRange(5, 200).Draw(t, "sites")
	c.OtherTmp = rapid.IntRange(0, 2).Draw(t, "otherTmp") == 0
	if rapid.IntRange(0, 5).Draw(t, "longName") == 0 {
		c.NameLen = rapid.IntRange(225, 255).Draw(t, "nameLen")
	}
	c.Distinct = rapid.IntRange(3, 60).Draw(t, "distinct")
	n := rapid.IntRange(1, 4).Draw(t, "nops")
	for i := 0; i < n; i++ {
		op := c17Op{Class: c17Classes[rapid.IntRange(0, len(c17Classes)-1).Draw(t, "class")], Frac: rapid.IntRange(0, 999).Draw(t, "frac"), Debug: rapid.IntRange(0, 2).Draw(t, "debug") == 0}
		switch rapid.IntRange(0, 11).Draw(t, "op") {
		case 11:
			op.Op = "run-overlap"
			op.Code = rapid.IntRange(0, 1).Draw(t, "overlapSecond")
			op.PidNS = rapid.Bool().Draw(t, "overlapPidNS")
		case 10:
			op.Op = "run-diskfull"
		case 0:
			op.Op = "run-ok"
		case 1, 2, 3:
			op.Op = "run-crash"
		case 4, 5:
			op.Op = "run-toolfail"
			op.Code = []int{1, 2, 3, 127, 255}[rapid.IntRange(0, 4).Draw(t, "code")]
		case 6, 7:
			op.Op = "run-toolkilled"
			op.Code = []int{9, 15, 9, 11}[rapid.IntRange(0, 3).Draw(t, "signal")]
		case 8:
			switch rapid.IntRange(0, 2).Draw(t, "rare") {
			case 0:
				op.Op = "run-toolmissing"
			case 1:
				// two runs on the same binary overlap in time; the second one fails (tool exit) or is killed
				op.Op = "run-overlap"
				op.Code = rapid.IntRange(0, 1).Draw(t, "overlapSecond")
			default:
				// writes to the cache fail beyond a size limit, and the tool does not notice (as the real one)
				op.Op = "run-fsize"
				if rapid.Bool().Draw(t, "diskFull") {
					// the file system holding the cache is full after so many bytes (everything else, the temp
					// directory included, has room)
					op.Op = "run-diskfull"
				}
			}
		default:
			op.Op = "change-binary"
		}
		c.Ops = append(c.Ops, op)
	}
	c.Stale = rapid.IntRange(0, 3).Draw(t, "stale") == 0
	return c
}

// stopAt resolves the byte count after which the tool's output stops.
func stopAt(text string, class string, frac int) int {
	L := len(text)
	pickFrom := func(c []int) int {
		if len(c) == 0 {
			return L * frac / 1000
		}
		return c[(frac*len(c))/1000]
	}
	const hashLine = 65 // the cache starts with the hash and a newline: flush boundaries of the 4096-byte writer are shifted by it
	switch class {
	case "zero":
		return 0
	case "first-line":
		i := strings.Index(text, "\n")
		if i <= 0 {
			return 0
		}
		return 1 + (frac*i)/1000%i
	case "flush-1", "flush", "flush+1":
		var c []int
		for k := 4096 - hashLine; k < L; k += 4096 {
			c = append(c, k+map[string]int{"flush-1": -1, "flush": 0, "flush+1": 1}[class])
		}
		return pickFrom(c)
	case "line":
		var c []int
		for i := 0; i < L; i++ {
			if text[i] == '\n' {
				c = append(c, i+1)
			}
		}
		return pickFrom(c)
	case "site-before", "site-inside", "site-after":
		var c []int
		for _, trig := range []string{"SYSCALL", "INT $0x80", "CALL syscall.", "CALL golang.org/x/sys/unix."} {
			for off := 0; ; {
				i := strings.Index(text[off:], trig)
				if i < 0 {
					break
				}
				p := off + i
				switch class {
				case "site-before":
					c = append(c, p)
				case "site-inside":
					c = append(c, p+3)
				default:
					e := strings.Index(text[p:], "\n")
					if e >= 0 {
						c = append(c, p+e+1)
					}
				}
				off = p + len(trig)
			}
		}
		return pickFrom(c)
	case "all-but-one":
		if L > 0 {
			return L - 1
		}
		return 0
	}
	return L * frac / 1000
}

func distinctNames(out string) int {
	set := map[string]bool{}
	for _, n := range profileNames(out) {
		set[n] = true
	}
	return len(set)
}

func checkC17(raw json.RawMessage) (ev.Result, error) {
	var c c17Case
	if err := json.Unmarshal(raw, &c); err != nil {
		return ev.Result{}, ev.Inconclusivef("bad case: %v", err)
	}
	rig, err := newProfRig(c.GOARCH)
	otherTmp := false
	if err == nil && c.OtherTmp {
		otherTmp = rig.useOtherTmp()
	}
	if err != nil {
		return ev.Result{}, ev.Inconclusivef("%v", err)
	}
	defer rig.close()
	archName := archOfGOARCH(c.GOARCH)
	version := uint64(0)
	var text string
	newListing := func() error {
		l, _ := exactListing(gen.NewRng(gen.Mix(c.ListSeed, version)), archName, c.Sites, c.Distinct)
		text, _ = sitemodel.Render(&l, gen.Mix(c.ListSeed, version+100))
		return rig.setListing(text)
	}
	if err := newListing(); err != nil {
		return ev.Result{}, ev.Inconclusivef("%v", err)
	}
	// profile of a cold-cache run for the current binary and listing
	if c.NameLen > 0 {
		if err := rig.useLongName(c.NameLen); err != nil {
			return ev.Result{}, ev.Inconclusivef("%v", err)
		}
	}
	cold := func() (string, error) {
		saved := rig.home
		rig.freshHome()
		defer func() { rig.home = saved }()
		if rig.shortBinary != "" {
			// the reference profile is taken under the ordinary name of the same file (with the long name even a cold
			// run may fail, which the statement allows)
			long := rig.binary
			rig.binary = rig.shortBinary
			defer func() { rig.binary = long }()
		}
		r, err := rig.run("ok", false)
		if err != nil {
			return "", err
		}
		if r.exit != 0 || r.signaled {
			return "", ev.Inconclusivef("cold-cache run failed: exit %d stderr %q", r.exit, clip(r.stderr, 300))
		}
		return r.stdout, nil
	}
	want, err := cold()
	if err != nil {
		if _, ok := err.(*ev.Inconclusive); ok {
			return ev.Result{}, err
		}
		return ev.Result{}, ev.Inconclusivef("%v", err)
	}
	fullDistinct := distinctNames(want)
	res := ev.Result{Classes: []string{"binary:" + c.GOARCH}}
	if otherTmp {
		res.Classes = append(res.Classes, "temp-dir-on-another-file-system")
	}
	if c.NameLen > 0 {
		res.Classes = append(res.Classes, "binary-name-close-to-NAME_MAX")
	}
	verify := func(what string, r *profRun) error {
		if r.exit != 0 || r.signaled {
			res.Classes = append(res.Classes, "run-after-fault-failed-with-error(ok)")
			return nil
		}
		if strings.Contains(what, "with -format config -d") {
			// another output format than the reference run: compare the allow-lists (the YAML profile read the way the
			// sandbox command reads it)
			var got []string
			if p, err := loadLikeSandbox([]byte(r.stdout)); err == nil {
				for _, g := range p.Syscalls {
					got = append(got, g.Names...)
				}
			} else {
				return fmt.Errorf("%s exited 0 but its output does not load as a profile: %v", what, err)
			}
			sort.Strings(got)
			wantNames := append([]string(nil), profileNames(want)...)
			sort.Strings(wantNames)
			if fmt.Sprint(got) != fmt.Sprint(wantNames) {
				return fmt.Errorf("%s exited 0 but its allow-list differs from a cold-cache run for the same binary: %d names instead of %d (stderr %q)\ngot names %v",
					what, len(got), len(wantNames), clip(r.stderr, 400), clipNames(got))
			}
			return nil
		}
		if r.stdout != want {
			return fmt.Errorf("%s exited 0 but its profile differs from a cold-cache run for the same binary: %d distinct syscalls instead of %d (stderr %q)\ngot names %v",
				what, distinctNames(r.stdout), fullDistinct, clip(r.stderr, 400), clipNames(profileNames(r.stdout)))
		}
		return nil
	}
	leftBehind := false
	ops := c.Ops
	if c.Stale {
		ops = append([]c17Op{{Op: "run-ok"}, {Op: "change-binary"}}, ops...)
		res.Classes = append(res.Classes, "cache-holds-the-dump-of-an-earlier-build")
	}
	for i, op := range ops {
		desc := fmt.Sprintf("step %d (%s %s/%d)", i, op.Op, op.Class, op.Frac)
		var dbg []string
		if op.Debug && (op.Op == "run-ok" || op.Op == "run-crash" || op.Op == "run-toolfail" || op.Op == "run-toolkilled" || op.Op == "run-toolmissing" || op.Op == "run-diskfull") {
			dbg = []string{"-format", "config", "-d"}
			desc += " with -format config -d"
			res.Classes = append(res.Classes, "faulty-run-with-debug-flag")
		}
		switch op.Op {
		case "run-ok":
			r, err := rig.run("ok", false, dbg...)
			if err != nil {
				return res, ev.Inconclusivef("%v", err)
			}
			if err := verify(desc, r); err != nil {
				return res, err
			}
		case "run-crash":
			n := stopAt(text, op.Class, op.Frac)
			if _, err := rig.run(fmt.Sprintf("block:%d", n), true, dbg...); err != nil {
				return res, ev.Inconclusivef("%v", err)
			}
			res.Classes = append(res.Classes, "crash:"+op.Class)
			if n < 4096-65 {
				res.Classes = append(res.Classes, "crash-before-first-flush")
			} else {
				res.Classes = append(res.Classes, "crash-between-flushes")
			}
			if rig.cacheSize() > 0 {
				res.Classes = append(res.Classes, "crash-left-cache-file")
				leftBehind = true
			}
		case "run-toolfail":
			n := stopAt(text, op.Class, op.Frac)
			r, err := rig.run(fmt.Sprintf("exit:%d:%d", n, op.Code), false, dbg...)
			if err != nil {
				return res, ev.Inconclusivef("%v", err)
			}
			res.Classes = append(res.Classes, "toolfail:"+op.Class)
			if n > 0 {
				res.Classes = append(res.Classes, "tool-exit-nonzero-after-partial-output")
			}
			// a run whose disassembler failed may fail itself; if it claims success it must be right
			if err := verify(desc, r); err != nil {
				return res, err
			}
			if rig.cacheSize() > 0 {
				res.Classes = append(res.Classes, "toolfail-left-cache-file")
				leftBehind = true
			}
		case "run-toolkilled":
			n := stopAt(text, op.Class, op.Frac)
			r, err := rig.run(fmt.Sprintf("kill:%d:%d", n, op.Code), false, dbg...)
			if err != nil {
				return res, ev.Inconclusivef("%v", err)
			}
			res.Classes = append(res.Classes, "tool-killed-by-signal")
			if err := verify(desc, r); err != nil {
				return res, err
			}
			if rig.cacheSize() > 0 {
				res.Classes = append(res.Classes, "toolkilled-left-cache-file")
				leftBehind = true
			}
		case "run-overlap":
			if op.PidNS && pidNamespacesAvailable() {
				rig.pidns = true
				res.Classes = append(res.Classes, "overlapping-runs-in-separate-pid-namespaces")
			}
			n := stopAt(text, op.Class, op.Frac)
			a, err := rig.start(fmt.Sprintf("slow:%d:250", n))
			if err != nil {
				return res, ev.Inconclusivef("%v", err)
			}
			// let the first run write its first part, then run the second one while the first is paused
			time.Sleep(60 * time.Millisecond)
			m := stopAt(text, "frac", (op.Frac*7+13)%1000)
			var rb *profRun
			if op.Code == 0 {
				rb, err = rig.run(fmt.Sprintf("exit:%d:3", m), false)
			} else {
				rb, err = rig.run(fmt.Sprintf("block:%d", m), true)
			}
			ra, werr := a.wait()
			rig.pidns = false
			if err != nil || werr != nil {
				return res, ev.Inconclusivef("%v %v", err, werr)
			}
			res.Classes = append(res.Classes, "overlapping-runs")
			if err := verify(desc+" (first of two overlapping runs)", ra); err != nil {
				return res, err
			}
			if !rb.killed {
				if err := verify(desc+" (second of two overlapping runs)", rb); err != nil {
					return res, err
				}
			}
		case "run-fsize":
			n := stopAt(text, op.Class, op.Frac)
			limit := int64(n + 65)
			if limit < 1 {
				limit = 1
			}
			r, err := rig.runLimited("okignore", false, limit)
			if err != nil {
				return res, ev.Inconclusivef("%v", err)
			}
			res.Classes = append(res.Classes, "cache-write-fails-beyond-size-limit")
			if err := verify(desc, r); err != nil {
				return res, err
			}
		case "run-diskfull":
			if rig.cacheMount == "" && !rig.mountCache() {
				// mount(2) not permitted here: the fault cannot be produced
				res.Classes = append(res.Classes, "diskfull-not-available")
				break
			}
			if op.Frac%2 == 0 {
				rig.clearCache() // a cold cache, so that the run really writes
			}
			n := int64(stopAt(text, op.Class, op.Frac)+65) &^ 4095
			if n < 4096 {
				n = 4096
			}
			if err := rig.resizeCache(n); err != nil {
				// a tmpfs cannot be made smaller than what it holds: start from an empty cache then
				rig.clearCache()
				if err := rig.resizeCache(n); err != nil {
					res.Classes = append(res.Classes, "diskfull-not-available")
					break
				}
			}
			r, err := rig.run("ok", false, dbg...)
			rig.resizeCache(64 << 20)
			if err != nil {
				return res, ev.Inconclusivef("%v", err)
			}
			res.Classes = append(res.Classes, "cache-file-system-full")
			if err := verify(desc, r); err != nil {
				return res, err
			}
		case "run-toolmissing":
			r, err := rig.run("", false, dbg...)
			if err != nil {
				return res, ev.Inconclusivef("%v", err)
			}
			res.Classes = append(res.Classes, "tool-missing")
			if err := verify(desc, r); err != nil {
				return res, err
			}
			if rig.cacheSize() > 0 {
				res.Classes = append(res.Classes, "toolmissing-left-cache-file")
				leftBehind = true
			}
		case "change-binary":
			version++
			if err := rig.changeBinary(version); err != nil {
				return res, ev.Inconclusivef("%v", err)
			}
			if err := newListing(); err != nil {
				return res, ev.Inconclusivef("%v", err)
			}
			if want, err = cold(); err != nil {
				return res, ev.Inconclusivef("%v", err)
			}
			fullDistinct = distinctNames(want)
			res.Classes = append(res.Classes, "binary-changed")
		}
	}
	// the final normal run
	r, err := rig.run("ok", false)
	if err != nil {
		return res, ev.Inconclusivef("%v", err)
	}
	if err := verify("the final normal run after "+describeOps(ops), r); err != nil {
		return res, err
	}
	if r.exit == 0 {
		res.Classes = append(res.Classes, "final-run-correct-profile")
	}
	res.NonTrivial = leftBehind || hasFault(c.Ops)
	res.Sub = len(ops) + 2
	_ = os.Stat
	_ = filepath.Join
	return res, nil
}

func hasFault(ops []c17Op) bool {
	for _, o := range ops {
		if o.Op != "run-ok" && o.Op != "change-binary" {
			return true
		}
	}
	return false
}

func describeOps(ops []c17Op) string {
	var s []string
	for _, o := range ops {
		s = append(s, fmt.Sprintf("%s(%s/%d)", o.Op, o.Class, o.Frac))
	}
	return strings.Join(s, ", ")
}

func TestC17Cache(t *testing.T) {
	ev.Prop(t, "C17", "history", drawC17, checkC17)
}
