package props

import (
	"encoding/json"
	"fmt"
	"testing"

	"pgregory.net/rapid"

	"verif/harness/internal/cbpf"
	"verif/harness/internal/ev"
	"verif/harness/internal/gen"
	"verif/harness/internal/model"
	"verif/harness/internal/oracle"
	"verif/harness/internal/spec"
)

// C01 — first matching group, else default.
// C03 — AND within a list, OR across lists, no leak across syscalls.
// C04 — foreign-architecture and x32 events never reach the rules.
// The three share the "compile, run events, compare with the reference
// decision" core and differ in generator profile, event domain and in what
// counts as non-trivial.

func drawArch(t *rapid.T) string {
	return oracle.Arches[rapid.IntRange(0, len(oracle.Arches)-1).Draw(t, "arch")]
}

func drawC01(t *rapid.T) polCase {
	arch := drawArch(t)
	prof := []gen.Profile{gen.NamesOnly, gen.NamesOnly, gen.NamesOnly, gen.Small, gen.Degenerate, gen.Long}[rapid.IntRange(0, 5).Draw(t, "profile")]
	p := gen.Policy(t, arch, gen.Opts{Profile: prof})
	if rapid.IntRange(0, 19).Draw(t, "manyGroups") == 0 {
		// "any number of groups": 30..130 groups of one or two names each, neighbouring groups with different actions
		u := gen.Subset(gen.Universe(arch), rapid.Uint64().Draw(t, "manyGroupsNames"), 260)
		ng := rapid.IntRange(30, 130).Draw(t, "nGroups")
		acts := oracle.ActionList()
		p.Groups = nil
		for g := 0; g < ng && len(u) >= 2; g++ {
			k := 1 + (g*7+ng)%2
			grp := spec.Group{Action: acts[(g+rapid.IntRange(0, 1).Draw(t, "actionStep"))%len(acts)], Names: append([]string(nil), u[:k]...)}
			u = u[k:]
			p.Groups = append(p.Groups, grp)
		}
	}
	c := polCase{Policy: p, Seed: rapid.Uint64().Draw(t, "seed"), Extra: drawExtraEvents(t, &p, 3)}
	switch rapid.IntRange(0, 12).Draw(t, "prevArch") {
	case 0, 1:
		c.Prev = drawArch(t)
	case 2, 3:
		c.Prev = "edited"
	case 4:
		c.Prev = "copy"
	case 5, 6:
		c.Prev = "then-other"
	case 7:
		if n, ok := foreignOnlyName(t, arch); ok && len(p.Groups) > 0 {
			c.Foreign = n
		}
	case 8:
		c.Prev = "shared-array"
	case 9:
		if arch == hostArchName() {
			c.Prev = "unset"
		}
	case 10:
		c.Prev = "edited-conds"
	}
	return c
}

var rejectedStats = map[string]*[2]int{}

func noteCompile(id string, rejected bool) {
	s := rejectedStats[id]
	if s == nil {
		s = &[2]int{}
		rejectedStats[id] = s
	}
	s[0]++
	if rejected {
		s[1]++
	}
}

func checkC01(raw json.RawMessage) (ev.Result, error) {
	c, err := parsePolCase(raw)
	if err != nil {
		return ev.Result{}, err
	}
	p := &c.Policy
	toCompile := p
	if c.Foreign != "" && len(p.Groups) > 0 {
		if _, known := model.Number(p.Arch, c.Foreign); known || spec.ArchInfo(p.Arch).SyscallNames[c.Foreign] != 0 {
			return ev.Result{}, ev.Inconclusivef("%q is a syscall of %s", c.Foreign, p.Arch)
		}
		q := *p
		q.Groups = append([]spec.Group(nil), p.Groups...)
		gi := int(c.Seed % uint64(len(q.Groups)))
		q.Groups[gi].Names = append(append([]string(nil), q.Groups[gi].Names...), c.Foreign)
		toCompile = &q
	}
	cp, cerr, pan := compilePolicyAfter(toCompile, c.Prev)
	if pan != nil {
		return ev.Result{}, fmt.Errorf("Assemble panicked: %v", pan)
	}
	noteCompile("C01", cerr != nil)
	if cerr != nil {
		// acceptance is C07's business
		return ev.Result{Classes: []string{"rejected-by-compiler"}}, nil
	}
	if err := cp.encode(); err != nil {
		return ev.Result{}, fmt.Errorf("program does not encode: %v", err)
	}
	st := &evalStats{classes: map[string]bool{}}
	policyShape(p, cp, st)
	if c.Foreign != "" {
		st.class("accepted-with-a-name-of-another-architecture")
	}
	switch {
	case c.Prev == "edited":
		st.class("value-held-another-policy-before")
	case c.Prev == "then-other":
		st.class("other-policies-compiled-before-the-program-is-used")
	case c.Prev == "shared-array":
		st.class("names-of-all-groups-in-one-shared-array")
	case c.Prev == "unset":
		st.class("architecture-left-to-the-library")
	case c.Prev == "copy":
		st.class("architecture-given-by-a-copy-of-the-info-value")
	case c.Prev == "edited-conds":
		st.class("value-edited-in-place-after-compiling-other-entries")
	case c.Prev != "" && c.Prev != p.Arch:
		st.class("value-compiled-for-another-architecture-before")
	}
	evs := gen.Events(p, c.Seed, gen.EventOpts{Own: true, PerNr: 2, MaxNrs: 120, Consts: cp.consts})
	x32bit := oracle.Const("__X32_SYSCALL_BIT")
	for _, e := range c.Extra {
		if p.Arch == "x86_64" && e.Nr >= x32bit {
			continue
		}
		evs = append(evs, e)
	}
	maxListed := uint32(0)
	for _, g := range p.Groups {
		for _, n := range g.Names {
			if nr, _ := model.Number(p.Arch, n); nr > maxListed {
				maxListed = nr
			}
		}
		for _, ce := range g.Conds {
			if nr, _ := model.Number(p.Arch, ce.Name); nr > maxListed {
				maxListed = nr
			}
		}
	}
	nt := 0
	err = runEvents(p, cp, evs, hostOrder(), func(e spec.Event, want uint32, info model.Info) {
		st.events++
		non := false
		if info.Group >= 1 {
			st.class("decided-by-group>=2")
			non = true
		}
		if info.Group >= 3 {
			st.class("decided-by-group>=4")
		}
		if info.Overlap {
			st.class("nr-listed-by-groups-with-different-actions")
			non = true
		}
		if info.Group < 0 && info.ListedBy == 0 {
			if e.Nr > maxListed && maxListed > 0 {
				st.class("default-for-nr-above-every-listed")
			}
			switch e.Nr {
			case 0, x32bit - 1, x32bit, 0x7fffffff, 0x80000000, 0xffffffff:
				st.class("default-for-boundary-nr")
				non = true
			}
		}
		if len(cp.raw) > 255 {
			non = true
		}
		if want == oracle.Const("SECCOMP_RET_ERRNO")|oracle.Const("EPERM") {
			st.class("errno-returned")
		}
		if non {
			nt++
		}
	})
	if err != nil {
		return ev.Result{}, err
	}
	return ev.Result{Classes: st.list(), NonTrivial: nt > 0, Sub: st.events, SubNonTrivial: nt}, nil
}

func TestC01Groups(t *testing.T) {
	ev.Prop(t, "C01", "policy-events", drawC01, checkC01)
	inconclusiveIfMostlyRejected("C01")
}

func inconclusiveIfMostlyRejected(id string) {
	if s := rejectedStats[id]; s != nil && s[0] > 20 && s[1]*2 > s[0] {
		ev.MarkInconclusive(id, "the compiler rejected %d of %d generated policies", s[1], s[0])
	}
}

// ---- C03 ----

func drawC03(t *rapid.T) polCase {
	arch := drawArch(t)
	prof := []gen.Profile{gen.CondHeavy, gen.CondHeavy, gen.Small, gen.Long}[rapid.IntRange(0, 3).Draw(t, "profile")]
	p := gen.Policy(t, arch, gen.Opts{Profile: prof})
	c := polCase{Policy: p, Seed: rapid.Uint64().Draw(t, "seed"), Extra: drawExtraEvents(t, &p, 2)}
	switch rapid.IntRange(0, 9).Draw(t, "variant") {
	case 0:
		c.OpCase = rapid.Uint64Range(1, 1<<62).Draw(t, "opCase")
	case 1:
		c.Prev = "edited"
	case 2:
		c.Prev = "edited-conds"
	}
	return c
}

func checkC03(raw json.RawMessage) (ev.Result, error) {
	c, err := parsePolCase(raw)
	if err != nil {
		return ev.Result{}, err
	}
	p := &c.Policy
	toCompile := p
	if c.OpCase != 0 {
		toCompile = mangleOps(p, c.OpCase)
	}
	cp, cerr, pan := compilePolicyAfter(toCompile, c.Prev)
	if pan != nil {
		return ev.Result{}, fmt.Errorf("Assemble panicked: %v", pan)
	}
	noteCompile("C03", cerr != nil)
	if cerr != nil {
		return ev.Result{Classes: []string{"rejected-by-compiler"}}, nil
	}
	if err := cp.encode(); err != nil {
		return ev.Result{}, fmt.Errorf("program does not encode: %v", err)
	}
	st := &evalStats{classes: map[string]bool{}}
	policyShape(p, cp, st)
	if c.OpCase != 0 {
		st.class("operation-names-in-another-letter-case-accepted")
	}
	if c.Prev == "edited" {
		st.class("value-held-another-policy-before")
	}
	if c.Prev == "edited-conds" {
		st.class("value-edited-in-place-after-compiling-other-conditions")
	}
	// shape classes of the conditional part
	perName := map[string]int{}
	groupsOf := map[string]map[int]bool{}
	listed := map[uint32]bool{}
	for gi, g := range p.Groups {
		for _, n := range g.Names {
			nr, _ := model.Number(p.Arch, n)
			listed[nr] = true
		}
		for _, ce := range g.Conds {
			nr, _ := model.Number(p.Arch, ce.Name)
			listed[nr] = true
			perName[fmt.Sprint(gi, ce.Name)]++
			if groupsOf[ce.Name] == nil {
				groupsOf[ce.Name] = map[int]bool{}
			}
			groupsOf[ce.Name][gi] = true
			seen := map[uint32]bool{}
			for _, cd := range ce.Conds {
				if seen[cd.Arg] {
					st.class("same-argument-twice-in-a-list")
				}
				seen[cd.Arg] = true
			}
			if len(ce.Conds) >= 6 {
				st.class("list-with>=6-conditions")
			}
		}
	}
	for _, k := range perName {
		if k >= 2 {
			st.class("syscall-with>=2-lists")
		}
		if k >= 5 {
			st.class("syscall-with>=5-lists")
		}
	}
	for _, gs := range groupsOf {
		if len(gs) >= 2 {
			st.class("conditional-syscall-in>=2-groups")
		}
	}
	evs := gen.Events(p, c.Seed, gen.EventOpts{Own: true, PerNr: 3, MaxNrs: 60, Consts: cp.consts})
	x32bit := oracle.Const("__X32_SYSCALL_BIT")
	for _, e := range c.Extra {
		if p.Arch == "x86_64" && e.Nr >= x32bit {
			continue
		}
		evs = append(evs, e)
	}
	nt := 0
	err = runEvents(p, cp, evs, hostOrder(), func(e spec.Event, want uint32, info model.Info) {
		st.events++
		non := false
		if info.FellThrough > 0 {
			st.class("conditional-entry-not-satisfied")
			// is there anything after it that could decide? (later group or default differ)
			non = true
			if info.Group >= 0 {
				st.class("fallthrough-then-decided-by-a-later-entry")
			} else {
				st.class("fallthrough-to-default")
			}
		}
		if info.Conditional {
			st.class("decided-by-conditional-entry")
			if info.FellThrough > 0 {
				st.class("OR:-earlier-list-failed-later-list-matched")
			}
		}
		// bait: an argument word equals a listed syscall number while nr has failed conditions
		if info.FellThrough > 0 {
			for _, a := range e.Args {
				if listed[uint32(a)] || listed[uint32(a>>32)] {
					st.class("bait-argument-word-equals-a-listed-number")
					break
				}
			}
		}
		if non {
			nt++
		}
	})
	if err != nil {
		return ev.Result{}, err
	}
	return ev.Result{Classes: st.list(), NonTrivial: nt > 0, Sub: st.events, SubNonTrivial: nt}, nil
}

func TestC03Conditions(t *testing.T) {
	ev.Prop(t, "C03", "policy-events", drawC03, checkC03)
	inconclusiveIfMostlyRejected("C03")
}

// ---- C04 ----

func drawC04(t *rapid.T) polCase {
	arch := drawArch(t)
	if rapid.IntRange(0, 2).Draw(t, "preferX86") == 0 {
		arch = "x86_64"
	}
	if rapid.IntRange(0, 9).Draw(t, "x32Table") == 0 {
		arch = "x32" // the x32 table: audit architecture x86_64, every one of its numbers carries the x32 bit
	}
	prof := []gen.Profile{gen.Edge255, gen.Edge255, gen.Small, gen.CondHeavy, gen.NamesOnly, gen.Degenerate}[rapid.IntRange(0, 5).Draw(t, "profile")]
	p := gen.Policy(t, arch, gen.Opts{Profile: prof})
	if prof == gen.Edge255 {
		tuneArchJump(&p, rapid.IntRange(250, 260).Draw(t, "archJumpTarget"), rapid.Uint64().Draw(t, "tuneSeed"))
	}
	c := polCase{Policy: p, Seed: rapid.Uint64().Draw(t, "seed")}
	switch rapid.IntRange(0, 9).Draw(t, "variant") {
	case 0:
		c.Prev = "copy"
	case 1:
		c.Prev = "edited"
	case 2:
		c.Prev = drawArch(t) // compiled for another architecture first (whatever is built once per process is built for that one)
	case 3, 4:
		if arch == hostArchName() {
			c.Prev = "unset" // the architecture is left to the library, as through the public API
		}
	case 5:
		// no groups at all: refused today; whatever a version accepts, the guards are part of it ("all accepted policies")
		if rapid.Bool().Draw(t, "noGroups") {
			c.Policy.Groups = nil
			if arch == hostArchName() && rapid.Bool().Draw(t, "noGroupsUnset") {
				c.Prev = "unset"
			}
		}
	}
	return c
}

// archJumpDistance reads the distance of the architecture jump off a compiled program.
func archJumpDistance(cp *compiled) int {
	if len(cp.raw) > 2 && cp.raw[2].IsJa() {
		return int(cp.raw[2].K)
	}
	if len(cp.raw) > 1 && cp.raw[1].IsCondJump() {
		if cp.raw[1].Jf > cp.raw[1].Jt {
			return int(cp.raw[1].Jf)
		}
		return int(cp.raw[1].Jt)
	}
	return -1
}

// tuneArchJump adds or removes unconditional names (generator-side search, using
// the compiler only to measure sizes) until the architecture jump has the
// wanted distance, so that both encodings are hit exactly at the switch.
func tuneArchJump(p *spec.Policy, target int, seed uint64) {
	u := gen.Universe(p.Arch)
	for iter := 0; iter < 6; iter++ {
		cp, err, pan := compilePolicy(p)
		if err != nil || pan != nil || cp.encode() != nil {
			return
		}
		d := archJumpDistance(cp)
		if d < 0 || d == target {
			return
		}
		// pick the group with the most names
		gi := 0
		for i, g := range p.Groups {
			if len(g.Names) > len(p.Groups[gi].Names) {
				gi = i
			}
		}
		g := &p.Groups[gi]
		if d > target {
			drop := d - target
			if drop > len(g.Names) {
				drop = len(g.Names)
			}
			if drop == 0 {
				return
			}
			g.Names = g.Names[:len(g.Names)-drop]
			continue
		}
		in := map[string]bool{}
		for _, n := range g.Names {
			in[n] = true
		}
		for _, ce := range g.Conds {
			in[ce.Name] = true
		}
		need := target - d
		for _, n := range gen.Subset(u, seed+uint64(iter), len(u)) {
			if need == 0 {
				break
			}
			if !in[n] {
				g.Names = append(g.Names, n)
				in[n] = true
				need--
			}
		}
		if need > 0 {
			return
		}
	}
}

func checkC04(raw json.RawMessage) (ev.Result, error) {
	c, err := parsePolCase(raw)
	if err != nil {
		return ev.Result{}, err
	}
	p := &c.Policy
	cp, cerr, pan := compilePolicyAfter(p, c.Prev)
	if pan != nil {
		return ev.Result{}, fmt.Errorf("Assemble panicked: %v", pan)
	}
	noteCompile("C04", cerr != nil)
	if cerr != nil {
		return ev.Result{Classes: []string{"rejected-by-compiler"}}, nil
	}
	if err := cp.encode(); err != nil {
		return ev.Result{}, fmt.Errorf("program does not encode: %v", err)
	}
	st := &evalStats{classes: map[string]bool{}}
	policyShape(p, cp, st)
	switch {
	case c.Prev == "copy":
		st.class("architecture-given-by-a-copy-of-the-info-value")
	case c.Prev == "unset":
		st.class("architecture-left-to-the-library")
	case c.Prev == "edited":
		st.class("value-held-another-policy-before")
	case c.Prev != "" && c.Prev != p.Arch:
		st.class("value-compiled-for-another-architecture-before")
	}
	// distance of the architecture jump as visible in the program: instruction 1
	// is either "jeq/jne arch" with an 8-bit skip or followed by an unconditional jump.
	if len(cp.raw) > 2 {
		if cp.raw[2].IsJa() {
			st.class("arch-jump:long-form")
			if st.hasArgLoads {
				st.class("arch-jump:long-form-with-conditional-policy")
			}
		} else if cp.raw[1].IsCondJump() {
			st.class("arch-jump:short-form")
		}
		st.class(fmt.Sprintf("arch-jump-distance-class:%s", distClass(archJumpDistance(cp))))
	}
	evs := gen.Events(p, c.Seed, gen.EventOpts{Foreign: true, X32: true, MaxNrs: 40, Consts: cp.consts})
	own := oracle.ArchID(p.Arch)
	x32bit := oracle.Const("__X32_SYSCALL_BIT")
	if p.Arch == "x32" {
		// the events a rule of this policy is written for (number | x32 bit), the same numbers without the bit, boundaries
		st.class("policy-for-the-x32-table")
		k := 0
		for _, g := range p.Groups {
			names := append([]string(nil), g.Names...)
			for _, ce := range g.Conds {
				names = append(names, ce.Name)
			}
			for _, n := range names {
				if k++; k > 60 {
					break
				}
				nr := uint32(oracle.Table("x32")[n])
				for _, v := range []uint32{nr | x32bit, nr, nr | x32bit | 0x80000000} {
					e := spec.Event{Arch: own, Nr: v}
					for a := range e.Args {
						e.Args[a] = gen.Boundary[(k+a)%len(gen.Boundary)]
					}
					evs = append(evs, e)
				}
			}
		}
		for _, v := range []uint32{0, 1, x32bit - 1, x32bit, x32bit + 1, 0xffffffff} {
			evs = append(evs, spec.Event{Arch: own, Nr: v})
		}
	}
	nt := 0
	err = runEvents(p, cp, evs, hostOrder(), func(e spec.Event, want uint32, info model.Info) {
		st.events++
		non := false
		switch {
		case info.Foreign:
			st.class("foreign-arch-event")
			// would the same nr/args with the policy's own architecture have got something else?
			e2 := e
			e2.Arch = own
			if w2, _, err := model.Decide(p, e2); err == nil && w2 != want {
				st.class("foreign-event-that-would-match-a-rule")
				non = true
			}
		case info.X32:
			st.class("x32-event")
			e2 := e
			e2.Nr &^= 0xc0000000
			if w2, i2, err := model.Decide(p, e2); err == nil && w2 != want && i2.Group >= 0 {
				st.class("x32-event-whose-low-bits-match-a-rule")
				non = true
			}
			switch e.Nr {
			case x32bit, 0x7fffffff, 0x80000000, 0xffffffff:
				st.class("x32-boundary-nr")
				non = true
			}
		default:
			if e.Nr == x32bit-1 {
				st.class("negative-control-0x3fffffff")
				non = true
			}
		}
		if non {
			nt++
		}
	})
	if err != nil {
		return ev.Result{}, err
	}
	return ev.Result{Classes: st.list(), NonTrivial: nt > 0, Sub: st.events, SubNonTrivial: nt}, nil
}

func distClass(d int) string {
	switch {
	case d < 250:
		return "<250"
	case d <= 260:
		return fmt.Sprint(d)
	}
	return ">260"
}

func TestC04Guards(t *testing.T) {
	ev.Prop(t, "C04", "policy-events", drawC04, checkC04)
	inconclusiveIfMostlyRejected("C04")
}

// ---- complete sweep of all 2^32 syscall numbers (thorough tier) ----

type c01SweepCase struct {
	Policy spec.Policy `json:"policy"`
	Args   [6]uint64   `json:"args"`
	From   uint32      `json:"from"`
	To     uint32      `json:"to"`
}

func checkC01Sweep(raw json.RawMessage) (ev.Result, error) {
	var c c01SweepCase
	if err := json.Unmarshal(raw, &c); err != nil {
		return ev.Result{}, ev.Inconclusivef("bad case: %v", err)
	}
	p := &c.Policy
	cp, cerr, pan := compilePolicy(p)
	if pan != nil || cerr != nil {
		return ev.Result{Classes: []string{"rejected-by-compiler"}}, nil
	}
	if err := cp.encode(); err != nil {
		return ev.Result{}, fmt.Errorf("program does not encode: %v", err)
	}
	// decision table: listed numbers decided by the model, everything else default (x32 range on x86_64: ENOSYS)
	own := oracle.ArchID(p.Arch)
	listed := map[uint32]uint32{}
	for _, g := range p.Groups {
		for _, n := range g.Names {
			nr, _ := model.Number(p.Arch, n)
			listed[nr] = 0
		}
		for _, ce := range g.Conds {
			nr, _ := model.Number(p.Arch, ce.Name)
			listed[nr] = 0
		}
	}
	for nr := range listed {
		w, _, err := model.Decide(p, spec.Event{Arch: own, Nr: nr, Args: c.Args})
		if err != nil {
			return ev.Result{}, ev.Inconclusivef("model: %v", err)
		}
		listed[nr] = w
	}
	def := model.Ret(p.Default)
	x32 := oracle.Const("__X32_SYSCALL_BIT")
	enosys := oracle.Const("SECCOMP_RET_ERRNO") | oracle.Const("ENOSYS")
	want := func(nr uint32) uint32 {
		if p.Arch == "x86_64" && nr >= x32 {
			return enosys
		}
		if w, ok := listed[nr]; ok {
			return w
		}
		return def
	}
	e := spec.Event{Arch: own, Args: c.Args}
	var bad error
	err := cbpf.SweepNr(cp.raw, e.Words(hostOrder()), c.From, c.To, want, func(nr, got uint32) bool {
		bad = fmt.Errorf("syscall number %d (%#x) with arguments %#x: filter returns %#x, policy demands %#x (complete sweep of [%#x, %#x], program of %d instructions)", nr, nr, c.Args, got, want(nr), c.From, c.To, len(cp.raw))
		return true
	})
	if err != nil {
		return ev.Result{}, fmt.Errorf("sweep: %v", err)
	}
	if bad != nil {
		return ev.Result{}, bad
	}
	n := int(uint64(c.To) - uint64(c.From) + 1)
	return ev.Result{Classes: []string{"complete-nr-range-sweep", "arch:" + p.Arch}, NonTrivial: true, Sub: n, SubNonTrivial: n}, nil
}

// TestC01Sweep: for one generated policy per architecture every 32-bit syscall
// number is executed (each shard takes 1/nshards of the range).
func TestC01Sweep(t *testing.T) {
	ev.Register("C01", "nr-sweep", checkC01Sweep)
	nShards, idx := shardInfo()
	seed := int(shardSeed()/1000003) % 100000 // the same policies in every shard of a run
	span := uint64(1<<32) / uint64(nShards)
	total := 0
	for ai, a := range oracle.Arches {
		g := rapid.Custom(func(t *rapid.T) spec.Policy {
			prof := []gen.Profile{gen.Small, gen.CondHeavy, gen.NamesOnly}[rapid.IntRange(0, 2).Draw(t, "profile")]
			return gen.Policy(t, a, gen.Opts{Profile: prof, MaxInsns: 300})
		})
		p := g.Example(seed*7 + ai)
		from := uint64(idx) * span
		to := from + span - 1
		if idx == nShards-1 {
			to = 1<<32 - 1
		}
		r := gen.NewRng(uint64(seed) + uint64(ai))
		c := c01SweepCase{Policy: p, From: uint32(from), To: uint32(to)}
		for i := range c.Args {
			c.Args[i] = gen.Boundary[r.Intn(len(gen.Boundary))]
		}
		if !ev.CheckOne(t, "C01", "nr-sweep", c, checkC01Sweep) {
			return
		}
		total += int(to - from + 1)
	}
	ev.Exhaustive("C01", "all 2^32 syscall numbers for one policy per architecture (this shard's part)", total)
}
