package props

import (
	"encoding/json"
	"fmt"
	"strings"
	"testing"

	seccomp "github.com/elastic/go-seccomp-bpf"
	"golang.org/x/net/bpf"
	"pgregory.net/rapid"

	"verif/harness/internal/cbpf"
	"verif/harness/internal/ev"
	"verif/harness/internal/labelvm"
)

// C06 — the label/jump builder preserves jump targets at any distance.

type c06Case struct {
	Prog labelvm.Program `json:"prog"`
	Seed uint64          `json:"seed"`
	// Again: Assemble is called this many more times on the same Program value; the list judged is the one returned by
	// the last call (a builder may refuse to assemble twice - no claim then - but must not return a different program).
	Again int `json:"again,omitempty"`
	// Huge: instead of Prog, a very long program described by a few numbers (see hugeProgram): jumps whose targets lie
	// beyond instruction 65535 and 131071 - "however far away it is".
	Huge *c06Huge `json:"huge,omitempty"`
	// Dense: instead of Prog, a jump over a dense run of M jumps whose two branches are both far and all different: every
	// one of them needs two bridges of its own, so the distance of the enclosing (near) jump grows up to threefold while
	// the bridges are inserted.
	Dense *c06Dense `json:"dense,omitempty"`
	// ZeroAt > 0: the jump with ordinal ZeroAt-1 (among the program's jumps) compares with the constant 0 (comparisons with
	// 0 are what the upper words of small operands produce; "A <= 0" and "A < 0" are not the same thing)
	ZeroAt int `json:"zero_at,omitempty"`
}

type c06Dense struct {
	M    int `json:"m"`    // number of dense jumps (the enclosing jump's label distance is M+1)
	Cond int `json:"cond"` // index into c06Conds of the enclosing jump
}

func denseProgram(d *c06Dense) labelvm.Program {
	m := d.M
	base := 2 + m + 1 + 300
	n := base + 2*m + 1
	p := make(labelvm.Program, n)
	for i := range p {
		p[i] = labelvm.Ins{Kind: labelvm.Ret, Val: 0x30000000 + uint32(i)}
	}
	p[0] = labelvm.Ins{Kind: labelvm.Load}
	p[1] = labelvm.Ins{Kind: labelvm.Jump, Cond: c06Conds[d.Cond%len(c06Conds)], Val: 0x7777, T: 2 + m, F: 2}
	for i := 0; i < m; i++ {
		p[2+i] = labelvm.Ins{Kind: labelvm.Jump, Cond: c06Conds[i%len(c06Conds)], Val: uint32(i+1)<<4 | 1, T: base + 2*i, F: base + 2*i + 1}
	}
	return p
}

type c06Huge struct {
	N       int    `json:"n"`       // number of label-level instructions
	Targets []int  `json:"targets"` // far targets (indices), ascending; jump k sits at index 2k+1 and goes there when its test holds
	NonRet  bool   `json:"nonret"`  // the targets are loads followed by a return instead of returns
	Val     uint32 `json:"val"`
}

// hugeProgram: load; jump -> Targets[0]; load; jump -> Targets[1]; ...; ret; then fillers (returns with distinct values)
// up to N, with the targets in between.
func hugeProgram(h *c06Huge) labelvm.Program {
	p := make(labelvm.Program, h.N)
	for i := range p {
		p[i] = labelvm.Ins{Kind: labelvm.Ret, Val: 0x20000000 + uint32(i)}
	}
	k := len(h.Targets)
	for j, tgt := range h.Targets {
		p[2*j] = labelvm.Ins{Kind: labelvm.Load, Hi: j%2 == 1}
		p[2*j+1] = labelvm.Ins{Kind: labelvm.Jump, Cond: c06Conds[j%len(c06Conds)], Val: h.Val + uint32(j), T: tgt, F: 2*j + 2, Next: j%2 == 0}
		if h.NonRet && tgt+1 < h.N {
			p[tgt] = labelvm.Ins{Kind: labelvm.Load}
		}
	}
	p[2*k] = labelvm.Ins{Kind: labelvm.Ret, Val: 0x7fff0000}
	return p
}

func mix(a, b uint64) uint64 {
	z := a + 0x9e3779b97f4a7c15*(b+1)
	z = (z ^ (z >> 30)) * 0xbf58476d1ce4e5b9
	z = (z ^ (z >> 27)) * 0x94d049bb133111eb
	return z ^ (z >> 31)
}

var c06Conds = []int{int(bpf.JumpEqual), int(bpf.JumpNotEqual), int(bpf.JumpGreaterThan), int(bpf.JumpLessThan),
	int(bpf.JumpGreaterOrEqual), int(bpf.JumpLessOrEqual), int(bpf.JumpBitsSet), int(bpf.JumpBitsNotSet)}

// drawLabelProgram generates a well-formed label program by construction.
func drawLabelProgram(t *rapid.T) c06Case {
	if rapid.IntRange(0, 99).Draw(t, "dense") == 0 {
		return c06Case{Dense: &c06Dense{M: rapid.IntRange(30, 126).Draw(t, "denseM"), Cond: rapid.IntRange(0, 7).Draw(t, "denseCond")}, Seed: rapid.Uint64().Draw(t, "seed")}
	}
	if rapid.IntRange(0, 199).Draw(t, "huge") == 0 {
		h := &c06Huge{NonRet: rapid.Bool().Draw(t, "hugeNonRet"), Val: rapid.Uint32().Draw(t, "hugeVal")}
		base := []int{65536, 65536, 131072}[rapid.IntRange(0, 2).Draw(t, "hugeBase")]
		nt := rapid.IntRange(1, 3).Draw(t, "hugeJumps")
		at := base + rapid.IntRange(-6, 10).Draw(t, "hugeFirst")
		for j := 0; j < nt; j++ {
			h.Targets = append(h.Targets, at)
			at += rapid.IntRange(2, 300).Draw(t, "hugeStep")
		}
		h.N = at + rapid.IntRange(1, 50).Draw(t, "hugeTail")
		return c06Case{Huge: h, Seed: rapid.Uint64().Draw(t, "seed")}
	}
	sizeClass := rapid.IntRange(0, 9).Draw(t, "sizeClass")
	var n int
	switch {
	case sizeClass < 3:
		n = rapid.IntRange(2, 40).Draw(t, "n")
	case sizeClass < 7:
		n = rapid.IntRange(200, 420).Draw(t, "n")
	case sizeClass < 9:
		n = rapid.IntRange(420, 900).Draw(t, "n")
	default:
		n = rapid.IntRange(900, 1500).Draw(t, "n")
	}
	style := rapid.IntRange(0, 4).Draw(t, "style") // bias of far targets
	// optional shared far label: many jumps to one place
	shared := -1
	if n > 300 && rapid.IntRange(0, 2).Draw(t, "useShared") == 0 {
		shared = rapid.IntRange(n/2, n-1).Draw(t, "shared")
	}
	p := make(labelvm.Program, n)
	dist := func(i int, label string) int {
		rem := n - 1 - i // maximal distance
		var d int
		far := []int{0, 2, 10, 30, 60}[style]
		k := rapid.IntRange(0, 99).Draw(t, label)
		switch {
		case k < far && rem > 8:
			sub := rapid.IntRange(0, 5).Draw(t, label+"far")
			switch sub {
			case 0:
				d = 256 // skip 255: longest short jump
			case 1:
				d = 257 // skip 256: shortest long jump
			case 2:
				d = rapid.IntRange(250, 262).Draw(t, label+"d")
			case 3:
				d = rapid.IntRange(200, 300).Draw(t, label+"d")
			default:
				d = rapid.IntRange(9, rem).Draw(t, label+"d")
			}
		case k < far+5 && shared > i:
			d = shared - i
		case k < 60:
			d = 1
		default:
			d = rapid.IntRange(2, 8).Draw(t, label+"d")
		}
		if d > rem {
			d = rem
		}
		if d < 1 {
			d = 1
		}
		return d
	}
	for i := 0; i < n-1; i++ {
		kind := rapid.IntRange(0, 9).Draw(t, "kind")
		if kind >= 3 && kind < 9 && i > 0 && p[i-1].Kind == labelvm.Jump && rapid.IntRange(0, 2).Draw(t, "fresh") != 0 {
			kind = 0 // a fresh word in front of most jumps keeps every branch feasible
		}
		switch {
		case kind < 3:
			p[i] = labelvm.Ins{Kind: labelvm.Load, Hi: rapid.Bool().Draw(t, "hi")}
		case kind < 9:
			tt := i + dist(i, "t")
			ff := i + dist(i, "f")
			if tt == ff {
				// identical targets: keep rarely (the builder may reject a jump with two identical far labels)
				keep := rapid.IntRange(0, 19).Draw(t, "same") == 0 && tt != i+1
				if keep && tt-i > 100 { // bridges inserted in between may make it far
					keep = rapid.IntRange(0, 19).Draw(t, "sameFar") == 0
				}
				if !keep {
					if ff > i+1 {
						ff--
					} else if tt < n-1 {
						tt++
					} else {
						p[i] = labelvm.Ins{Kind: labelvm.Load}
						continue
					}
				}
			}
			in := labelvm.Ins{Kind: labelvm.Jump, Cond: c06Conds[rapid.IntRange(0, 7).Draw(t, "cond")], T: tt, F: ff}
			// unique constant per jump, low bits varied so that bit tests are interesting
			in.Val = uint32(i+1)<<4 | uint32(rapid.IntRange(1, 15).Draw(t, "vlow"))
			if ff == i+1 && rapid.Bool().Draw(t, "next") {
				in.Next = true
			}
			p[i] = in
		default:
			p[i] = labelvm.Ins{Kind: labelvm.Ret, Val: 0x10000000 + uint32(i)}
		}
	}
	p[n-1] = labelvm.Ins{Kind: labelvm.Ret, Val: 0x10000000 + uint32(n-1)}
	c := c06Case{Prog: p, Seed: rapid.Uint64().Draw(t, "seed")}
	c.Again = []int{0, 0, 0, 0, 1, 1, 2}[rapid.IntRange(0, 6).Draw(t, "again")]
	if rapid.IntRange(0, 2).Draw(t, "withZero") == 0 {
		c.ZeroAt = rapid.IntRange(1, 41).Draw(t, "zeroAt")
	}
	return c
}

// buildWithBuilder replays the label program as public builder calls.
func buildWithBuilder(p labelvm.Program, again int) (insts []bpf.Instruction, err error, panicked any) {
	defer func() {
		if x := recover(); x != nil {
			panicked = x
		}
	}()
	prog := seccomp.NewProgram()
	labels := map[int]seccomp.Label{}
	get := func(target int) seccomp.Label {
		if l, ok := labels[target]; ok {
			return l
		}
		l := prog.NewLabel()
		labels[target] = l
		return l
	}
	for i, in := range p {
		if l, ok := labels[i]; ok {
			prog.SetLabel(l)
		}
		switch in.Kind {
		case labelvm.Load:
			if in.Hi {
				prog.LdHi(uint32(i))
			} else {
				prog.LdLo(uint32(i))
			}
		case labelvm.Jump:
			if in.Next {
				prog.JmpIfTrue(bpf.JumpTest(in.Cond), in.Val, get(in.T))
			} else {
				prog.JmpIf(bpf.JumpTest(in.Cond), in.Val, get(in.T), get(in.F))
			}
		case labelvm.Ret:
			prog.Ret(seccomp.Action(in.Val))
		}
	}
	insts, err = prog.Assemble()
	for k := 0; k < again && err == nil; k++ {
		first := insts
		insts, err = prog.Assemble()
		if err != nil {
			return nil, fmt.Errorf("(call %d on the same Program) %v", k+2, err), nil
		}
		_ = first
	}
	return insts, err, nil
}

func toRaw(insts []bpf.Instruction) ([]cbpf.Raw, error) {
	raw, err := bpf.Assemble(insts)
	if err != nil {
		return nil, err
	}
	out := make([]cbpf.Raw, len(raw))
	for i, r := range raw {
		out[i] = cbpf.Raw{Op: r.Op, Jt: r.Jt, Jf: r.Jf, K: r.K}
	}
	return out, nil
}

var c06Stats struct{ built, rejected int }

func checkC06(raw json.RawMessage) (ev.Result, error) {
	var c c06Case
	if err := json.Unmarshal(raw, &c); err != nil {
		return ev.Result{}, ev.Inconclusivef("bad case: %v", err)
	}
	p := c.Prog
	if c.Huge != nil {
		if c.Huge.N < 10 || c.Huge.N > 400000 || len(c.Huge.Targets) == 0 || 2*len(c.Huge.Targets)+1 >= c.Huge.Targets[0] || c.Huge.Targets[len(c.Huge.Targets)-1] >= c.Huge.N-1 {
			return ev.Result{}, ev.Inconclusivef("ill-formed huge program")
		}
		p = hugeProgram(c.Huge)
	}
	if c.Dense != nil {
		if c.Dense.M < 1 || c.Dense.M > 2000 {
			return ev.Result{}, ev.Inconclusivef("ill-formed dense program")
		}
		p = denseProgram(c.Dense)
	}
	if c.ZeroAt > 0 && c.Huge == nil && c.Dense == nil {
		// (a copy: the case itself is not modified)
		p = append(labelvm.Program(nil), p...)
		k, far := 0, -1
		for i := range p {
			if p[i].Kind != labelvm.Jump {
				continue
			}
			if p[i].T-i-1 > 255 && far < 0 && k >= (c.ZeroAt-1)%8 {
				far = i // prefer a jump whose true label is far
			}
			k++
		}
		z := far
		if z < 0 {
			k = 0
			for i := range p {
				if p[i].Kind == labelvm.Jump {
					if k == c.ZeroAt-1 {
						z = i
					}
					k++
				}
			}
		}
		if z >= 0 {
			p[z].Val = 0
		}
	}
	if err := p.Validate(); err != nil {
		return ev.Result{}, ev.Inconclusivef("generator produced an ill-formed program: %v", err)
	}
	n := len(p)
	res := ev.Result{}
	insts, err, pan := buildWithBuilder(p, c.Again)
	if pan != nil {
		return res, fmt.Errorf("builder panicked on a well-formed label program of %d instructions: %v", n, pan)
	}
	c06Stats.built++
	if err != nil {
		// C06 does not claim acceptance (C07 does, for policies).
		if c.Again > 0 && strings.HasPrefix(err.Error(), "(call ") {
			res.Classes = append(res.Classes, "repeated-assemble-refused(no-claim)")
			return res, nil
		}
		c06Stats.rejected++
		res.Classes = append(res.Classes, "rejected-by-assemble", "rejected: "+err.Error())
		return res, nil
	}
	if c.Again > 0 {
		res.Classes = append(res.Classes, "assembled-more-than-once")
	}
	if c.Huge != nil {
		res.Classes = append(res.Classes, "target-beyond-instruction-65535")
	}
	if c.Dense != nil {
		res.Classes = append(res.Classes, "near-jump-over-a-dense-run-of-far-jumps")
	}
	for i, in := range p {
		if in.Kind == labelvm.Jump && in.Val == 0 {
			res.Classes = append(res.Classes, "jump-comparing-with-0")
			if in.T-i-1 > 255 {
				res.Classes = append(res.Classes, "far-true-branch-of-a-comparison-with-0")
			}
		}
	}
	prog, err := toRaw(insts)
	if err != nil {
		return res, fmt.Errorf("assembled program does not encode to raw form: %v", err)
	}
	// classes
	bridges := len(prog) - n
	if bridges > 0 {
		res.Classes = append(res.Classes, "has-bridge")
	}
	farTargets := map[int]int{}
	bothFar, farNonRet, d255, d256 := false, false, false, false
	for i, in := range p {
		if in.Kind != labelvm.Jump {
			continue
		}
		tf, ff := in.T-i-1 > 255, in.F-i-1 > 255
		if tf && ff && in.T != in.F {
			bothFar = true
		}
		for _, tg := range []int{in.T, in.F} {
			switch tg - i - 1 {
			case 255:
				d255 = true
			case 256:
				d256 = true
			}
			if tg-i-1 > 255 {
				farTargets[tg]++
				if p[tg].Kind != labelvm.Ret {
					farNonRet = true
				}
			}
		}
	}
	many := false
	for _, k := range farTargets {
		if k >= 3 {
			many = true
		}
	}
	for name, b := range map[string]bool{"both-branches-far": bothFar, "far-nonreturn-target": farNonRet, "skip-255": d255, "skip-256": d256, "label-with-3+-far-jumps": many} {
		if b {
			res.Classes = append(res.Classes, name)
		}
	}
	bo := seccomp.VerifByteOrder().String()
	// oracle: observable trace equality on edge-covering inputs
	solver := labelvm.NewSolver(p)
	var ctr uint64
	pick := func(k int) int { ctr++; return int(mix(c.Seed, ctr) % uint64(k)) }
	nextJumpVal := make([]uint32, n)
	var nv uint32
	for i := n - 1; i >= 0; i-- {
		if p[i].Kind == labelvm.Jump {
			nv = p[i].Val
		}
		nextJumpVal[i] = nv
	}
	runOne := func(fix map[int]uint32, salt uint64) (bool, error) {
		input := func(idx int) uint32 {
			if v, ok := fix[idx]; ok {
				return v
			}
			h := mix(c.Seed^salt, uint64(idx))
			jv := nextJumpVal[idx]
			switch h % 6 {
			case 0:
				return jv
			case 1:
				return jv + 1
			case 2:
				return jv - 1
			case 3:
				return 0
			case 4:
				return 0xffffffff
			}
			return uint32(h >> 8)
		}
		wantRet, wantTrace := p.Run(input)
		var tr []cbpf.Step
		var loadErr error
		gotRet, err := cbpf.RunWith(prog, func(off uint32) (uint32, error) {
			if off < 16 || (off-16)%4 != 0 {
				return 0, fmt.Errorf("load offset %d was never requested", off)
			}
			idx := int((off - 16) / 8)
			if idx >= n || p[idx].Kind != labelvm.Load {
				return 0, fmt.Errorf("load offset %d does not belong to a load of the label program", off)
			}
			second := (off-16)%8 == 4
			wantSecond := (p[idx].Hi && bo == "LittleEndian") || (!p[idx].Hi && bo == "BigEndian")
			if second != wantSecond {
				loadErr = fmt.Errorf("load %d reads the wrong half (offset %d, hi=%v, order %s)", idx, off, p[idx].Hi, bo)
			}
			return input(idx), nil
		}, &tr)
		if err != nil {
			return false, fmt.Errorf("assembled program (%d instructions for %d label-level ones) fails to execute: %v", len(prog), n, err)
		}
		if loadErr != nil {
			return false, loadErr
		}
		// observable trace of the assembled run
		var got []labelvm.Step
		usedBridge := false
		for _, s := range tr {
			switch {
			case s.In.IsJa():
				usedBridge = true
			case s.In.IsCondJump():
				got = append(got, labelvm.Step{Kind: labelvm.Jump, ID: s.In.K})
			case s.In.IsRetK():
				got = append(got, labelvm.Step{Kind: labelvm.Ret, ID: s.In.K})
			default:
				if off, ok := s.In.IsLoad(); ok {
					got = append(got, labelvm.Step{Kind: labelvm.Load, ID: (off - 16) / 8})
				} else {
					return false, fmt.Errorf("assembled program executes an instruction the builder was never asked for: %+v at pc %d", s.In, s.PC)
				}
			}
		}
		if gotRet != wantRet {
			return false, fmt.Errorf("label program returns %#x, assembled program returns %#x (n=%d, assembled %d)", wantRet, gotRet, n, len(prog))
		}
		if len(got) != len(wantTrace) {
			return false, fmt.Errorf("observable traces differ in length: label %d steps, assembled %d steps", len(wantTrace), len(got))
		}
		for i := range got {
			if got[i] != wantTrace[i] {
				return false, fmt.Errorf("observable traces differ at step %d: label %+v, assembled %+v", i, wantTrace[i], got[i])
			}
		}
		// non-trivial: execution went through an inserted unconditional bridge
		throughFar := usedBridge
		return throughFar, nil
	}
	edges, solved := 0, 0
	farRuns := 0
	for i, in := range p {
		if in.Kind != labelvm.Jump || !solver.Reachable(i) {
			continue
		}
		for _, br := range []bool{true, false} {
			edges++
			fix, ok := solver.SolveEdge(labelvm.Edge{Jump: i, Branch: br}, pick, 24)
			if !ok {
				continue
			}
			solved++
			tgt := in.F
			if br {
				tgt = in.T
			}
			far, err := runOne(fix, uint64(edges))
			if err != nil {
				return res, err
			}
			if far || tgt-i-1 > 255 {
				farRuns++
			}
		}
	}
	for k := 0; k < 8; k++ {
		far, err := runOne(nil, 0xabcdef+uint64(k))
		if err != nil {
			return res, err
		}
		if far {
			farRuns++
		}
	}
	res.Sub = solved + 8
	res.NonTrivial = bridges > 0 && farRuns > 0
	res.SubNonTrivial = farRuns
	if edges > 0 && solved == edges {
		res.Classes = append(res.Classes, "all-edges-covered")
	}
	ev.Count("C06", "edges", edges)
	ev.Count("C06", "edges-solved", solved)
	return res, nil
}

func TestC06Labels(t *testing.T) {
	ev.Prop(t, "C06", "labelprog", drawLabelProgram, checkC06)
	if c06Stats.built > 20 && c06Stats.rejected*10 > c06Stats.built {
		ev.MarkInconclusive("C06", "only %d of %d generated label programs were accepted by Assemble", c06Stats.built-c06Stats.rejected, c06Stats.built)
	}
}
