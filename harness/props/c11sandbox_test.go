package props

import (
	"encoding/json"
	"fmt"
	"strings"
	"syscall"
	"testing"

	"pgregory.net/rapid"

	"verif/harness/internal/ev"
	"verif/harness/internal/spec"
)

// C11 through the sandbox command: its -no-new-privs option (default true) is how a user of the command requests the bit
// or does not. Requested: the target runs with the bit set, also for an unprivileged user. Not requested: the bit is left
// as it was (a privileged user's target runs without it), and an unprivileged user gets an error and no target.

type c11SbCase struct {
	Uid    int    `json:"uid"`
	Flag   string `json:"flag"` // spelling on the command line, "absent" = not given
	GOARCH string `json:"goarch,omitempty"`
	Tsync  bool   `json:"tsync_irrelevant,omitempty"`
}

// spelling -> requested (the Go flag package's boolean syntax; the option's documented default is true)
var c11SbFlags = map[string]bool{
	"absent": true, "-no-new-privs": true, "--no-new-privs": true, "-no-new-privs=true": true, "-no-new-privs=1": true, "-no-new-privs=T": true, "--no-new-privs=TRUE": true,
	"-no-new-privs=false": false, "--no-new-privs=false": false, "-no-new-privs=0": false, "-no-new-privs=f": false, "-no-new-privs=F": false, "-no-new-privs=FALSE": false, "-no-new-privs=False": false,
}

func drawC11Sb(t *rapid.T) c11SbCase {
	var keys []string
	for k := range c11SbFlags {
		keys = append(keys, k)
	}
	sortStrings(keys)
	return c11SbCase{Uid: []int{0, 65534}[rapid.IntRange(0, 1).Draw(t, "uid")], Flag: keys[rapid.IntRange(0, len(keys)-1).Draw(t, "flag")],
		GOARCH: []string{"", "", "386"}[rapid.IntRange(0, 2).Draw(t, "goarch")]}
}

func sortStrings(s []string) {
	for i := 1; i < len(s); i++ {
		for j := i; j > 0 && s[j] < s[j-1]; j-- {
			s[j], s[j-1] = s[j-1], s[j]
		}
	}
}

func ownNoNewPrivs() (int, error) {
	r, _, e := syscall.RawSyscall6(syscall.SYS_PRCTL, 39 /* PR_GET_NO_NEW_PRIVS */, 0, 0, 0, 0, 0)
	if e != 0 {
		return 0, e
	}
	return int(r), nil
}

func checkC11Sb(raw json.RawMessage) (ev.Result, error) {
	var c c11SbCase
	if err := json.Unmarshal(raw, &c); err != nil {
		return ev.Result{}, ev.Inconclusivef("bad case: %v", err)
	}
	requested, ok := c11SbFlags[c.Flag]
	if !ok || (c.Uid != 0 && c.Uid != 65534) || (c.GOARCH != "" && c.GOARCH != "386") {
		return ev.Result{}, ev.Inconclusivef("ill-formed case")
	}
	if hostArchName() != "x86_64" || syscall.Getuid() != 0 {
		return ev.Result{}, ev.Inconclusivef("set up for root on an x86_64 host")
	}
	own, err := ownNoNewPrivs()
	if err != nil {
		return ev.Result{}, ev.Inconclusivef("prctl(PR_GET_NO_NEW_PRIVS): %v", err)
	}
	archName, prctlNr := "x86_64", uint32(157)
	if c.GOARCH == "386" {
		archName, prctlNr = "i386", 172
	}
	sc := c15Case{NNP: requested, NNPFlag: c.Flag, Uid: c.Uid, GOARCH: c.GOARCH, Spelling: 1,
		Policy: spec.Policy{Arch: archName, Default: actAllow, Groups: []spec.Group{{Action: actErrno, Names: []string{"sync"}}}},
		Events: []spec.Event{{Nr: prctlNr, Args: [6]uint64{39, 0, 0, 0, 0, 0}}}}
	text, writeFile := c15PolicyText(&sc)
	run, err := runSandbox(&sc, text, writeFile)
	if err != nil {
		return ev.Result{}, ev.Inconclusivef("%v", err)
	}
	if run.timedOut {
		return ev.Result{}, ev.Inconclusivef("sandbox timed out")
	}
	who := map[int]string{0: "privileged", 65534: "unprivileged"}[c.Uid]
	what := fmt.Sprintf("sandbox (%s user, option %q, i.e. no_new_privs %s)", who, c.Flag, map[bool]string{true: "requested", false: "not requested"}[requested])
	res := ev.Result{Classes: []string{"sandbox-command", "sandbox:" + who, fmt.Sprintf("sandbox:requested=%v", requested)}, Sub: 1, NonTrivial: c.Flag != "absent"}
	if !requested && c.Uid != 0 {
		if run.marker {
			return res, fmt.Errorf("%s: the target was started; an unprivileged load without the bit must fail (exit %d, stderr %q)", what, run.exit, clip(run.stderr, 300))
		}
		if run.exit == 0 && !run.signaled {
			return res, fmt.Errorf("%s: exit status 0 although no filter can have been installed (stderr %q)", what, clip(run.stderr, 300))
		}
		res.Classes = append(res.Classes, "sandbox:unprivileged-without-the-bit-fails")
		return res, nil
	}
	if !run.marker {
		return res, fmt.Errorf("%s: the target was not started: exit %d, stderr %q", what, run.exit, clip(run.stderr, 300))
	}
	// the bit as the target sees it
	bit := -1
	for _, line := range strings.Split(run.stdout, "\n") {
		var l struct {
			Ev    string `json:"ev"`
			K     int    `json:"k"`
			Ret   int64  `json:"ret"`
			Errno int    `json:"errno"`
		}
		if json.Unmarshal([]byte(line), &l) == nil && l.Ev == "end" && l.K == 0 && l.Errno == 0 {
			bit = int(l.Ret)
		}
	}
	if bit < 0 {
		return res, ev.Inconclusivef("the target did not report prctl(PR_GET_NO_NEW_PRIVS): %q", clip(run.stdout, 300))
	}
	want := own
	if requested {
		want = 1
	}
	if bit != want {
		return res, fmt.Errorf("%s: the target runs with no_new_privs=%d, expected %d (the bit of the calling process is %d)", what, bit, want, own)
	}
	res.Classes = append(res.Classes, fmt.Sprintf("sandbox:target-bit=%d", bit))
	return res, nil
}

func TestC11Sandbox(t *testing.T) {
	ev.Prop(t, "C11", "sandbox", drawC11Sb, checkC11Sb)
}
