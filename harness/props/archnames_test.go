package props

import "strings"

// Classification of architecture names, shared by C07 and C12. Only what the properties pin down is asserted:
//   - the documented aliases (any ASCII letter case) resolve to their table;
//   - names of architectures that exist but have no syscall tables in the package must be reported as unsupported;
//   - every other string (near misses, alternative spellings such as "x86-64" or "i686", arbitrary text) may be rejected
//     or may resolve to one of the five tables: a maintainer is free to accept more spellings.

var archAliases = map[string]string{"arm": "arm", "i386": "i386", "386": "i386", "x86_64": "x86_64", "amd64": "x86_64",
	"aarch64": "aarch64", "arm64": "aarch64", "x32": "x32"}

// architectures (Linux / GOARCH / audit names) for which the package has no tables
var archWithoutTables = []string{
	// named by the package
	"ppc", "ppc64", "ppc64le", "s390", "s390x", "mips", "mipsle", "mips64", "mips64n32", "mips64p32", "mipsel64", "mips64le", "mipsel64n32", "mips64p32le",
	// further GOARCH values and Linux / audit architecture names
	"mipsel", "riscv64", "riscv", "loong64", "loongarch64", "wasm", "sparc", "sparc64", "ia64", "m68k", "m32r", "cris", "frv", "parisc", "parisc64",
	"sh", "sh64", "shel", "shel64", "alpha", "hexagon", "microblaze", "openrisc", "xtensa", "arc", "csky", "nios2",
	// big-endian ARM variants: other audit architectures than the little-endian tables of the package
	"armeb", "armbe", "armv7b", "aarch64_be", "arm64be",
}

func archClass(name string) (class string, table string) {
	if !isASCII(name) {
		return "other", ""
	}
	low := asciiLower(name)
	if t, ok := archAliases[low]; ok {
		return "alias", t
	}
	for _, n := range archWithoutTables {
		if n == low {
			return "no-tables", ""
		}
	}
	_ = strings.ToLower
	return "other", ""
}
