package props

import (
	"os"
	"strings"
	"testing"

	"verif/harness/internal/ev"
	"verif/harness/internal/kchild"
)

func TestMain(m *testing.M) {
	code := m.Run()
	if kchild.Timeouts > 0 {
		for _, id := range []string{"C08", "C09", "C10", "C11"} {
			if strings.Contains(os.Getenv("VERIF_CURRENT_ID"), id) {
				ev.Count(id, "child-timeouts-retried", kchild.Timeouts)
				ev.Note(id, "last child that timed out: %s", kchild.LastTimeoutDump)
			}
		}
	}
	ev.Flush()
	os.Exit(code)
}

// TestReplay re-runs the case of $VERIF_REPLAY directly, bypassing rapid.
// All check functions are registered by registerAll.
func TestReplay(t *testing.T) {
	path := os.Getenv("VERIF_REPLAY")
	if path == "" {
		t.Skip("VERIF_REPLAY not set")
	}
	registerAll()
	id, err := ev.Replay(path)
	if err != nil {
		if _, inc := err.(*ev.Inconclusive); inc {
			t.Logf("INCONCLUSIVE replay of %s: %v", path, err)
			ev.MarkInconclusive(id, "replay %s: %v", path, err)
			return
		}
		t.Errorf("VIOLATION-CASE property=%s kind=replay file=%s: %v", id, path, err)
	}
}

func registerAll() {
	ev.Register("C06", "labelprog", checkC06)
	ev.Register("C01", "policy-events", checkC01)
	ev.Register("C01", "nr-sweep", checkC01Sweep)
	ev.Register("C02", "grid", checkC02)
	ev.Register("C07", "policy", checkC07)
	ev.Register("C08", "kernel", checkC08)
	ev.Register("C09", "history", checkC09)
	ev.Register("C10", "plan", checkC10)
	ev.Register("C11", "load", checkC11)
	ev.Register("C15", "sandbox", checkC15)
	ev.Register("C16", "extract", checkC16)
	ev.Register("C16", "arch", checkC16Arch)
	ev.Register("C17", "history", checkC17)
	ev.Register("C18", "profile", checkC18)
	ev.Register("C19", "target", checkC19Target)
	ev.Register("C19", "transplant", checkC19Transplant)
	ev.Register("C19", "arch-digest", checkC19ArchDigest)
	ev.Register("C12", "entry", checkC12Entry)
	ev.Register("C12", "arch", checkC12Arch)
	ev.Register("C12", "processes", checkC12Processes)
	ev.Register("C12", "cross-table", checkC12Cross)
	ev.Register("C13", "history", checkC13History)
	ev.Register("C13", "concurrent", checkC13Concurrent)
	ev.Register("C13", "text", checkC13Text)
	ev.Register("C13", "processes", checkC13Processes)
	ev.Register("C13", "text-processes", checkC13TextProcesses)
	ev.Register("C14", "parse", checkC14Parse)
	ev.Register("C14", "config", checkC14Cfg)
	ev.Register("C05", "program", checkC05)
	ev.Register("C05", "verifier-differential", checkC05Diff)
	ev.Register("C07", "arch", checkC07Arch)
	ev.Register("C07", "size-boundary", checkC07Size)
	ev.Register("C02", "random", checkC02)
	ev.Register("C03", "policy-events", checkC03)
	ev.Register("C04", "policy-events", checkC04)
}
