package props

import (
	"encoding/json"
	"fmt"
	"os"
	"os/exec"
	"sort"
	"strings"
	"testing"

	"github.com/elastic/go-seccomp-bpf/arch"
	"pgregory.net/rapid"

	"verif/harness/internal/ev"
	"verif/harness/internal/kchild"
	"verif/harness/internal/oracle"
	"verif/harness/internal/spec"
)

// C12 — syscall tables and architecture metadata are correct and unambiguous.

// names the sources and the library legitimately spell differently for the
// same number (the sources disagree among themselves or with the kernel's
// syscall.tbl on these).
var c12Aliases = map[string][][]string{
	"aarch64": {{"fstatat", "newfstatat", "fstatat64"}},
}

func aliasOf(archName, a, b string) bool {
	for _, set := range c12Aliases[archName] {
		ina, inb := false, false
		for _, n := range set {
			if n == a {
				ina = true
			}
			if n == b {
				inb = true
			}
		}
		if ina && inb {
			return true
		}
	}
	return false
}

type c12EntryCase struct {
	Arch string `json:"arch"`
	Name string `json:"name,omitempty"`
	Nr   int    `json:"nr"`
	By   string `json:"by"` // "name" or "number"
}

func checkC12Entry(raw json.RawMessage) (ev.Result, error) {
	var c c12EntryCase
	if err := json.Unmarshal(raw, &c); err != nil {
		return ev.Result{}, ev.Inconclusivef("bad case: %v", err)
	}
	info := spec.ArchInfo(c.Arch)
	if info == nil {
		return ev.Result{}, ev.Inconclusivef("no such table %q", c.Arch)
	}
	res := ev.Result{Classes: []string{"table:" + c.Arch, "by-" + c.By}}
	switch c.By {
	case "size":
		if len(info.SyscallNames) != len(info.SyscallNumbers) {
			return res, fmt.Errorf("%s: %d numbers but %d names: some name has two numbers (name->number lookups are ambiguous and differ between processes)", c.Arch, len(info.SyscallNumbers), len(info.SyscallNames))
		}
		res.NonTrivial = true
	case "number":
		name, ok := info.SyscallNumbers[c.Nr]
		if !ok {
			return res, ev.Inconclusivef("number %d not in the table any more", c.Nr)
		}
		// inverse law
		back, ok := info.SyscallNames[name]
		if !ok {
			return res, fmt.Errorf("%s: number %d is named %q, but the name cannot be looked up", c.Arch, c.Nr, name)
		}
		if back != c.Nr {
			return res, fmt.Errorf("%s: number %d is named %q, but %q resolves to %d: the name has two numbers, lookups are ambiguous", c.Arch, c.Nr, name, name, back)
		}
		// number-keyed agreement with the sources that list the number
		listed := false
		for src, tbl := range oracle.Sources(c.Arch) {
			var theirs []string
			for n, nr := range tbl {
				if nr == c.Nr {
					theirs = append(theirs, n)
				}
			}
			if len(theirs) == 0 {
				continue
			}
			listed = true
			ok := false
			for _, n := range theirs {
				if n == name || aliasOf(c.Arch, n, name) {
					ok = true
				}
			}
			if !ok {
				sort.Strings(theirs)
				return res, fmt.Errorf("%s: number %d is %q in the library but %v in %s", c.Arch, c.Nr, name, theirs, src)
			}
		}
		res.NonTrivial = listed
	case "name":
		nr, ok := info.SyscallNames[c.Name]
		if !ok {
			return res, ev.Inconclusivef("name %q not in the table any more", c.Name)
		}
		if n2, ok := info.SyscallNumbers[nr]; !ok || n2 != c.Name {
			return res, fmt.Errorf("%s: %q resolves to %d, but %d is named %q", c.Arch, c.Name, nr, nr, n2)
		}
		listed := false
		for src, tbl := range oracle.Sources(c.Arch) {
			if want, ok := tbl[c.Name]; ok {
				listed = true
				if want != nr {
					return res, fmt.Errorf("%s: %q is %d in the library but %d in %s", c.Arch, c.Name, nr, want, src)
				}
			}
		}
		res.NonTrivial = listed
	}
	return res, nil
}

func TestC12Tables(t *testing.T) {
	ev.Register("C12", "entry", checkC12Entry)
	total := 0
	for _, a := range oracle.AllTables {
		info := spec.ArchInfo(a)
		if !ev.CheckOne(t, "C12", "entry", c12EntryCase{Arch: a, By: "size"}, checkC12Entry) {
			return
		}
		nums := make([]int, 0, len(info.SyscallNumbers))
		for n := range info.SyscallNumbers {
			nums = append(nums, n)
		}
		sort.Ints(nums)
		for _, n := range nums {
			total++
			if !ev.CheckOne(t, "C12", "entry", c12EntryCase{Arch: a, Nr: n, By: "number"}, checkC12Entry) {
				return
			}
		}
		names := make([]string, 0, len(info.SyscallNames))
		for n := range info.SyscallNames {
			names = append(names, n)
		}
		sort.Strings(names)
		for _, n := range names {
			total++
			if !ev.CheckOne(t, "C12", "entry", c12EntryCase{Arch: a, Name: n, By: "name"}, checkC12Entry) {
				return
			}
		}
		// coverage note: oracle names the library does not have
		missing := 0
		for n := range oracle.Table(a) {
			if _, ok := info.SyscallNames[n]; !ok {
				missing++
			}
		}
		ev.Note("C12", "%s: %d numbers, %d names; %d oracle names are not in the library table (not asserted)", a, len(nums), len(names), missing)
	}
	ev.Exhaustive("C12", "every (number,name) and (name,number) pair of the five tables", total)
}

// ---- architecture metadata ----

type c12ArchCase struct {
	Name string `json:"name"` // spelling offered to GetInfo
}

// canonical alias -> (table, audit constant, seccomp mask)
var c12Arches = map[string]struct {
	table string
	audit string
	mask  uint32
}{
	"arm": {"arm", "ARM", 0}, "i386": {"i386", "I386", 0}, "386": {"i386", "I386", 0},
	"x86_64": {"x86_64", "X86_64", 0}, "amd64": {"x86_64", "X86_64", 0},
	"aarch64": {"aarch64", "AARCH64", 0}, "arm64": {"aarch64", "AARCH64", 0},
	"x32": {"x32", "X86_64", 0x40000000},
}

var c12NoTables = archWithoutTables

func getInfoSafe(name string) (info *arch.Info, err error, pan any) {
	defer func() { pan = recover() }()
	info, err = arch.GetInfo(name)
	return
}

func checkC12Arch(raw json.RawMessage) (ev.Result, error) {
	var c c12ArchCase
	if err := json.Unmarshal(raw, &c); err != nil {
		return ev.Result{}, ev.Inconclusivef("bad case: %v", err)
	}
	info, err, pan := getInfoSafe(c.Name)
	if pan != nil {
		return ev.Result{}, fmt.Errorf("GetInfo(%q) panicked: %v", c.Name, pan)
	}
	low := asciiLower(c.Name)
	res := ev.Result{}
	if want, ok := c12Arches[low]; ok && isASCII(c.Name) && c.Name != "" {
		res.Classes = append(res.Classes, "alias:"+low)
		if err != nil || info == nil {
			return res, fmt.Errorf("GetInfo(%q) = error %v, but %q is an architecture with tables", c.Name, err, low)
		}
		canon, cerr, _ := getInfoSafe(want.table)
		if cerr != nil || canon != info {
			return res, fmt.Errorf("GetInfo(%q) and GetInfo(%q) do not resolve to the same table", c.Name, want.table)
		}
		if info != spec.ArchInfo(want.table) {
			return res, fmt.Errorf("GetInfo(%q) resolves to table %q, want %q", c.Name, info.Name, want.table)
		}
		id, _ := oracle.AuditArch(want.audit)
		if uint32(info.ID) != id {
			return res, fmt.Errorf("GetInfo(%q).ID = %#x, AUDIT_ARCH_%s is %#x", c.Name, uint32(info.ID), want.audit, id)
		}
		if uint32(info.SeccompMask) != want.mask {
			return res, fmt.Errorf("GetInfo(%q).SeccompMask = %#x, want %#x", c.Name, info.SeccompMask, want.mask)
		}
		res.NonTrivial = c.Name != want.table
		if c.Name != low {
			res.Classes = append(res.Classes, "alias-in-non-canonical-case")
		}
		return res, nil
	}
	if c.Name == "" {
		// host architecture
		if hostArchName() == "x86_64" && (err != nil || info != arch.X86_64) {
			return res, fmt.Errorf("GetInfo(\"\") does not resolve to the host table")
		}
		return ev.Result{Classes: []string{"alias:host"}}, nil
	}
	if !isASCII(c.Name) && (strings.EqualFold(c.Name, low) || c12Folds(c.Name)) {
		return ev.Result{Classes: []string{"unicode-fold-no-claim"}}, nil
	}
	if class, _ := archClass(c.Name); class != "no-tables" {
		// a spelling whose status the property does not settle (near miss, alternative spelling, arbitrary text): it may be
		// rejected, or accepted as a further alias - but then it must resolve to one of the five tables, complete and with
		// the right metadata
		res.Classes = append(res.Classes, "name-of-unsettled-status")
		if err != nil {
			if info != nil {
				return res, fmt.Errorf("GetInfo(%q) returns an error together with an Info", c.Name)
			}
			return res, nil
		}
		for _, t := range oracle.AllTables {
			if info == spec.ArchInfo(t) {
				return res, nil
			}
		}
		return res, fmt.Errorf("GetInfo(%q) returns, without error, an Info that is none of the five architectures with tables (%v)", c.Name, info)
	}
	res.Classes = append(res.Classes, "unsupported-or-unknown")
	if err == nil || info != nil {
		return res, fmt.Errorf("GetInfo(%q) returns an Info without error although the architecture has no syscall tables", c.Name)
	}
	res.NonTrivial = true
	return res, nil
}

func c12Folds(s string) bool {
	l := strings.ToLower(s)
	if _, ok := c12Arches[l]; ok {
		return true
	}
	for k := range c12Arches {
		if strings.EqualFold(k, s) {
			return true
		}
	}
	return false
}

func TestC12ArchMetadata(t *testing.T) {
	ev.Register("C12", "arch", checkC12Arch)
	// every Info value of the package: audit id equals the kernel constant
	infos := map[string]*arch.Info{"ARM": arch.ARM, "AARCH64": arch.AARCH64, "I386": arch.I386, "X86_64": arch.X86_64, "PPC": arch.PPC, "PPC64": arch.PPC64,
		"PPC64LE": arch.PPC64LE, "S390": arch.S390, "S390X": arch.S390X, "MIPS": arch.MIPS, "MIPSEL": arch.MIPSEL, "MIPS64": arch.MIPS64,
		"MIPS64N32": arch.MIPS64N32, "MIPSEL64": arch.MIPSEL64, "MIPSEL64N32": arch.MIPSEL64N32}
	n := 0
	for k, info := range infos {
		want, ok := oracle.AuditArch(k)
		if !ok {
			ev.MarkInconclusive("C12", "no AUDIT_ARCH_%s in the kernel header", k)
			continue
		}
		n++
		if uint32(info.ID) != want {
			ev.Fail(t, "C12", "arch", c12ArchCase{Name: k}, fmt.Errorf("arch.%s.ID = %#x, AUDIT_ARCH_%s is %#x", k, uint32(info.ID), k, want))
			return
		}
	}
	if want, _ := oracle.AuditArch("X86_64"); uint32(arch.X32.ID) != want || uint32(arch.X32.SeccompMask) != oracle.Const("__X32_SYSCALL_BIT") {
		ev.Fail(t, "C12", "arch", c12ArchCase{Name: "X32"}, fmt.Errorf("arch.X32 has ID %#x / mask %#x", uint32(arch.X32.ID), arch.X32.SeccompMask))
		return
	}
	ev.Exhaustive("C12", "audit ids of all 16 Info values", n+1)
	// every alias, canonical + upper case
	var names []string
	for k := range c12Arches {
		names = append(names, k, strings.ToUpper(k))
	}
	names = append(names, c12NoTables...)
	for _, k := range c12NoTables {
		names = append(names, strings.ToUpper(k))
	}
	names = append(names, "", "x86-64", "x86_64 ", " amd64", "amd", "i686", "armv7", "arm64e", "aarch64_be", "x64", "ia64", "riscv64", "loong64", "wasm", "sparc64")
	sort.Strings(names)
	for _, k := range names {
		if !ev.CheckOne(t, "C12", "arch", c12ArchCase{Name: k}, checkC12Arch) {
			return
		}
	}
	ev.Prop(t, "C12", "arch", func(t *rapid.T) c12ArchCase {
		var keys []string
		for k := range c12Arches {
			keys = append(keys, k)
		}
		keys = append(keys, c12NoTables...)
		sort.Strings(keys)
		base := keys[rapid.IntRange(0, len(keys)-1).Draw(t, "base")]
		mask := rapid.Uint32().Draw(t, "caseMask")
		b := []byte(base)
		for i := range b {
			if mask&(1<<uint(i)) != 0 && b[i] >= 'a' && b[i] <= 'z' {
				b[i] -= 32
			}
		}
		s := string(b)
		switch rapid.IntRange(0, 9).Draw(t, "edit") {
		case 0:
			s += rapid.StringMatching(`[a-z0-9_ ]`).Draw(t, "suffix")
		case 1:
			s = rapid.StringMatching(`[a-z0-9_ ]`).Draw(t, "prefix") + s
		case 2:
			if len(s) > 2 {
				i := rapid.IntRange(1, len(s)-1).Draw(t, "space")
				s = s[:i] + " " + s[i:]
			}
		case 3:
			s = rapid.String().Draw(t, "any")
		case 4:
			s = strings.Replace(s, "a", "а", 1) // cyrillic
		}
		return c12ArchCase{Name: s}
	}, checkC12Arch)
}

// ---- fresh processes ----

type c12ProcCase struct {
	Processes int `json:"processes"`
}

func checkC12Processes(raw json.RawMessage) (ev.Result, error) {
	var c c12ProcCase
	if err := json.Unmarshal(raw, &c); err != nil {
		return ev.Result{}, ev.Inconclusivef("bad case: %v", err)
	}
	var first string
	for i := 0; i < c.Processes; i++ {
		m, err := runDigest("")
		if err != nil {
			return ev.Result{}, ev.Inconclusivef("%v", err)
		}
		if i == 0 {
			first = m["lookups"]
			continue
		}
		if m["lookups"] != first {
			return ev.Result{}, fmt.Errorf("process %d of %d sees different lookup results than process 1 (digest over every name->number, number->name and alias lookup): some lookup depends on map iteration order", i+1, c.Processes)
		}
	}
	// nor on the environment of the process (a cross-compilation shell exports GOARCH and GOOS)
	if bin, err := kchild.Bin("digest"); err == nil {
		for _, env := range [][]string{{"GOARCH=386", "GOOS=linux"}, {"GOARCH=arm64", "GOOS=darwin"}, {"GOARCH=mips"}, {"GOARCH=wasm", "GOOS=js"}} {
			cmd := exec.Command(bin)
			cmd.Env = append(os.Environ(), env...)
			out, err := cmd.Output()
			if err != nil {
				return ev.Result{}, ev.Inconclusivef("digest with %v: %v", env, err)
			}
			m := map[string]string{}
			for _, f := range strings.Fields(string(out)) {
				if kv := strings.SplitN(f, "=", 2); len(kv) == 2 {
					m[kv[0]] = kv[1]
				}
			}
			if m["lookups"] != first || m["native"] != hostArchName() {
				return ev.Result{}, fmt.Errorf("with %v in the environment the architecture lookups change: digest %s (without: %s), the build's own architecture is reported as %q (this is a linux/amd64 build)", env, m["lookups"], first, m["native"])
			}
		}
	}
	// and by another build of the library: the aliases and tables do not depend on the build target either
	res := ev.Result{Classes: []string{"lookups-across-processes"}, NonTrivial: true, Sub: c.Processes}
	if bin, err := kchild.Bin("digest_386"); err == nil {
		out, err := exec.Command(bin).Output()
		if err != nil {
			return res, ev.Inconclusivef("digest_386: %v", err)
		}
		got := ""
		for _, f := range strings.Fields(string(out)) {
			if strings.HasPrefix(f, "lookups=") {
				got = strings.TrimPrefix(f, "lookups=")
			}
		}
		// the lookup of the empty name is the build's own architecture and differs by construction: the helper prints
		// it separately
		if got != first {
			return res, fmt.Errorf("a linux/386 build of the library answers the architecture lookups (every alias in several letter cases, every table) differently from the linux/amd64 build: digests %s vs %s", got, first)
		}
		res.Classes = append(res.Classes, "lookups-by-a-386-build")
		res.Sub++
	}
	return res, nil
}

func TestC12Processes(t *testing.T) {
	ev.Register("C12", "processes", checkC12Processes)
	ev.CheckOne(t, "C12", "processes", c12ProcCase{Processes: ev.Scale(8, 64)}, checkC12Processes)
	ev.CheckOne(t, "C12", "processes", c12ProcCase{Processes: ev.Scale(9, 65)}, checkC12Processes)
}

// ---- structural laws between the tables (extend the oracle to entries no vendored source lists) ----

type c12CrossCase struct {
	Law string `json:"law"`
	Nr  int    `json:"nr"`
}

// checkC12Cross: (1) the x32 ABI consists of the "common" entries of the x86_64 table (numbers below 512, same
// names) plus its own entries from 512 on; (2) since Linux 5.1 new system calls get the same number on every
// architecture: numbers 403..511 carry the same name in every table that has them. Both are facts about the
// kernel's syscall tables, independent of this repository; together with the vendored sources (which cover these
// numbers for at least one table) they pin the entries that are newer than the vendored headers.
func checkC12Cross(raw json.RawMessage) (ev.Result, error) {
	var c c12CrossCase
	if err := json.Unmarshal(raw, &c); err != nil {
		return ev.Result{}, ev.Inconclusivef("bad case: %v", err)
	}
	switch c.Law {
	case "x32-common":
		name, ok := arch.X32.SyscallNumbers[c.Nr]
		if !ok || c.Nr >= 512 {
			return ev.Result{}, ev.Inconclusivef("no x32 entry %d below 512", c.Nr)
		}
		if other, ok := arch.X86_64.SyscallNumbers[c.Nr]; !ok || other != name {
			return ev.Result{}, fmt.Errorf("x32 entry %d is %q, but the x86_64 table has %q there: x32 numbers below 512 are the common entries of the x86_64 table", c.Nr, name, other)
		}
	case "unified":
		names := map[string][]string{}
		for _, a := range oracle.AllTables {
			if n, ok := spec.ArchInfo(a).SyscallNumbers[c.Nr]; ok {
				names[n] = append(names[n], a)
			}
		}
		if len(names) > 1 {
			return ev.Result{}, fmt.Errorf("system call number %d (unified numbering since Linux 5.1) has different names in different tables: %v", c.Nr, names)
		}
	default:
		return ev.Result{}, ev.Inconclusivef("unknown law %q", c.Law)
	}
	return ev.Result{Classes: []string{"cross-table-law:" + c.Law}, NonTrivial: true}, nil
}

func TestC12CrossTable(t *testing.T) {
	ev.Register("C12", "cross-table", checkC12Cross)
	n := 0
	var nums []int
	for nr := range arch.X32.SyscallNumbers {
		if nr < 512 {
			nums = append(nums, nr)
		}
	}
	sort.Ints(nums)
	for _, nr := range nums {
		n++
		if !ev.CheckOne(t, "C12", "cross-table", c12CrossCase{"x32-common", nr}, checkC12Cross) {
			return
		}
	}
	for nr := 403; nr < 512; nr++ {
		n++
		if !ev.CheckOne(t, "C12", "cross-table", c12CrossCase{"unified", nr}, checkC12Cross) {
			return
		}
	}
	ev.Exhaustive("C12", "cross-table laws (x32 common entries, unified numbers 403..511)", n)
}
