package props

import (
	"encoding/json"
	"fmt"
	"go/ast"
	"go/parser"
	"go/token"
	"os"
	"path/filepath"
	"reflect"
	"sort"
	"strconv"
	"strings"
	"testing"

	seccomp "github.com/elastic/go-seccomp-bpf"
	"pgregory.net/rapid"

	"verif/harness/internal/cbpf"
	"verif/harness/internal/ev"
	"verif/harness/internal/gen"
	"verif/harness/internal/oracle"
	"verif/harness/internal/sitemodel"
	"verif/harness/internal/spec"
)

// C18 — profiles are (found minus blacklisted) plus allowed, and load back.

type c18Case struct {
	GOARCH    string   `json:"goarch"`
	ListSeed  uint64   `json:"list_seed"`
	Sites     int      `json:"sites"`
	Distinct  int      `json:"distinct"`
	Blacklist []string `json:"blacklist"` // flag values as given on the command line (may hold several names each)
	Allow     []string `json:"allow"`
	Format    string   `json:"format"` // config / code / default
	// OutFile: write the profile with -out to a file that an earlier, longer profile of the same binary was written to.
	OutFile bool `json:"out_file,omitempty"`
	// Debug: the -d flag (the configuration output additionally lists every syscall site); the emitted profile must
	// still load and mean the same
	Debug bool `json:"debug,omitempty"`
	// Dyn: the binary is a dynamically linked Go program (amd64 only)
	Dyn bool `json:"dyn,omitempty"`
}

func drawC18(t *rapid.T) c18Case {
	c := c18Case{GOARCH: []string{"amd64", "amd64", "386"}[rapid.IntRange(0, 2).Draw(t, "goarch")], ListSeed: rapid.Uint64().Draw(t, "listSeed"),
		Format: []string{"config", "config", "code", "default"}[rapid.IntRange(0, 3).Draw(t, "format")]}
	switch k := rapid.IntRange(0, 9).Draw(t, "size"); {
	case k == 0:
		c.Sites, c.Distinct = 0, 0
	case k < 7:
		c.Distinct = rapid.IntRange(1, 40).Draw(t, "distinct")
		c.Sites = c.Distinct + rapid.IntRange(0, 60).Draw(t, "dups")
	default:
		c.Distinct = rapid.IntRange(256, 300).Draw(t, "distinct")
		c.Sites = c.Distinct + rapid.IntRange(0, 20).Draw(t, "dups")
	}
	archName := archOfGOARCH(c.GOARCH)
	// the discovered set, to aim the flags at it
	_, nums := exactListing(gen.NewRng(c.ListSeed), archName, c.Sites, c.Distinct)
	found := namesOf(archName, nums)
	tableNames := gen.Universe(archName)
	otherArch := "i386"
	if archName == "i386" {
		otherArch = "x86_64"
	}
	// boundary names: the smallest numbers of the table (0 in particular) and the largest one
	tbl := spec.ArchInfo(archName).SyscallNumbers
	nums0 := tableNumbers(archName)
	boundary := []string{tbl[nums0[0]], tbl[nums0[1]], tbl[nums0[len(nums0)-1]]}
	inOther := map[string]bool{} // names already used by the other flag set (the two sets are disjoint)
	pick := func(label string, preferFound bool) string {
		switch k := rapid.IntRange(0, 10).Draw(t, label+"Class"); {
		case k == 10:
			return boundary[rapid.IntRange(0, len(boundary)-1).Draw(t, label+"Boundary")]
		case k < 5 && len(found) > 0 && preferFound:
			return found[rapid.IntRange(0, len(found)-1).Draw(t, label+"Found")]
		case k < 8:
			return tableNames[rapid.IntRange(0, len(tableNames)-1).Draw(t, label+"Table")]
		case k < 9:
			// a name of the other architecture only
			on := oracle.Names(otherArch)
			start := rapid.IntRange(0, len(on)-1).Draw(t, label+"Other")
			for i := 0; i < len(on); i++ {
				n := on[(start+i)%len(on)]
				if _, ok := spec.ArchInfo(archName).SyscallNames[n]; !ok {
					return n
				}
			}
			return "no_such_call"
		}
		return []string{"no_such_call", "READ", "exit_grp", "sys_read"}[rapid.IntRange(0, 3).Draw(t, label+"Unknown")]
	}
	// separators: blank, comma, semicolon as in the README's examples, and the other white space a shell hands over
	// when the list comes from a file or a here-document (-b "$(cat names.txt)": line breaks, tabs)
	seps := []string{",", " ", ";", ", ", " ; ", "\n", "\t", " \n", "\r\n"}
	build := func(label string, preferFound bool) []string {
		var flags []string
		mine := map[string]bool{}
		nflags := rapid.IntRange(0, 3).Draw(t, label+"Flags")
		for f := 0; f < nflags; f++ {
			var names []string
			k := rapid.IntRange(1, 4).Draw(t, label+"Names")
			for i := 0; i < k; i++ {
				n := pick(label, preferFound)
				if inOther[n] {
					continue // the two flag sets are disjoint; repetitions inside one set are fine
				}
				if len(mine) > 0 && rapid.IntRange(0, 4).Draw(t, label+"Repeat") == 0 {
					// repeat a name given before (same or earlier flag)
					var prev []string
					for m := range mine {
						prev = append(prev, m)
					}
					sort.Strings(prev)
					n = prev[rapid.IntRange(0, len(prev)-1).Draw(t, label+"RepeatWhich")]
				}
				mine[n] = true
				names = append(names, n)
			}
			if len(names) > 0 {
				v := strings.Join(names, seps[rapid.IntRange(0, len(seps)-1).Draw(t, label+"Sep")])
				if rapid.IntRange(0, 5).Draw(t, label+"TrailingNewline") == 0 {
					v += "\n"
				}
				flags = append(flags, v)
			}
		}
		return flags
	}
	c.OutFile = rapid.IntRange(0, 4).Draw(t, "outFile") == 0
	c.Debug = rapid.IntRange(0, 3).Draw(t, "debug") == 0
	c.Dyn = c.GOARCH == "amd64" && rapid.IntRange(0, 3).Draw(t, "dyn") == 0
	c.Blacklist = build("b", true)
	for _, v := range c.Blacklist {
		for _, n := range splitFlag(v) {
			inOther[n] = true
		}
	}
	c.Allow = build("allow", false)
	return c
}

func splitFlag(v string) []string {
	return strings.FieldsFunc(v, func(r rune) bool { return r == ',' || r == ';' || r == ' ' || r == '\t' || r == '\n' || r == '\r' })
}

// namesFromGo reads the string list out of the generated Go source.
func namesFromGo(src string) ([]string, error) {
	f, err := parser.ParseFile(token.NewFileSet(), "profile.go", src, 0)
	if err != nil {
		return nil, err
	}
	var names []string
	ast.Inspect(f, func(n ast.Node) bool {
		if cl, ok := n.(*ast.CompositeLit); ok {
			if at, ok := cl.Type.(*ast.ArrayType); ok {
				if id, ok := at.Elt.(*ast.Ident); ok && id.Name == "string" {
					for _, e := range cl.Elts {
						if bl, ok := e.(*ast.BasicLit); ok && bl.Kind == token.STRING {
							s, _ := strconv.Unquote(bl.Value)
							names = append(names, s)
						}
					}
				}
			}
		}
		return true
	})
	return names, nil
}

func checkC18(raw json.RawMessage) (ev.Result, error) {
	var c c18Case
	if err := json.Unmarshal(raw, &c); err != nil {
		return ev.Result{}, ev.Inconclusivef("bad case: %v", err)
	}
	rigArch := c.GOARCH
	if c.Dyn && c.GOARCH == "amd64" {
		rigArch = "amd64-dyn"
	}
	rig, err := newProfRig(rigArch)
	if err != nil {
		return ev.Result{}, ev.Inconclusivef("%v", err)
	}
	defer rig.close()
	archName := archOfGOARCH(c.GOARCH)
	l, nums := exactListing(gen.NewRng(c.ListSeed), archName, c.Sites, c.Distinct)
	text, _ := sitemodel.Render(&l, gen.Mix(c.ListSeed, 9))
	if err := rig.setListing(text); err != nil {
		return ev.Result{}, ev.Inconclusivef("%v", err)
	}
	found := namesOf(archName, nums)
	// set algebra oracle
	black := map[string]bool{}
	for _, v := range c.Blacklist {
		for _, n := range splitFlag(v) {
			black[n] = true
		}
	}
	tbl := spec.ArchInfo(archName).SyscallNames
	want := map[string]bool{}
	removed := 0
	for _, n := range found {
		if black[n] {
			removed++
			continue
		}
		want[n] = true
	}
	added := 0
	for _, v := range c.Allow {
		for _, n := range splitFlag(v) {
			if black[n] {
				return ev.Result{}, ev.Inconclusivef("flag sets are not disjoint")
			}
			if _, ok := tbl[n]; ok && !want[n] {
				want[n] = true
				added++
			}
		}
	}
	var wantList []string
	for n := range want {
		wantList = append(wantList, n)
	}
	sort.Strings(wantList)
	var args []string
	if c.Format != "default" {
		args = append(args, "-format", c.Format)
	}
	if c.Debug {
		args = append(args, "-d")
	}
	for _, v := range c.Blacklist {
		args = append(args, "-b", v)
	}
	for _, v := range c.Allow {
		args = append(args, "-allow", v)
	}
	res := ev.Result{Classes: []string{"format:" + c.Format, "binary:" + c.GOARCH}}
	if c.Debug {
		res.Classes = append(res.Classes, "debug-flag", "debug-flag/format:"+c.Format)
	}
	if c.Dyn {
		res.Classes = append(res.Classes, "dynamically-linked-binary")
	}
	var run *profRun
	if c.OutFile {
		// first a longer profile (many always-allowed names) into the file, then the one under test into the same file
		outPath := filepath.Join(rig.dir, "profile.out")
		first := []string{}
		if c.Format != "default" {
			first = append(first, "-format", c.Format)
		}
		first = append(first, "-allow", strings.Join(gen.Subset(gen.Universe(archName), c.ListSeed, 40), ","), "-out", outPath)
		if r0, err := rig.run("ok", false, first...); err != nil || r0.exit != 0 {
			return ev.Result{}, ev.Inconclusivef("first -out run failed: %v", err)
		}
		r1, err := rig.run("ok", false, append(append([]string{}, args...), "-out", outPath)...)
		if err != nil {
			return ev.Result{}, ev.Inconclusivef("%v", err)
		}
		b, rerr := os.ReadFile(outPath)
		if rerr != nil {
			return ev.Result{}, ev.Inconclusivef("%v", rerr)
		}
		r1.stdout = string(b)
		run = r1
		res.Classes = append(res.Classes, "out-file-rewritten")
	} else {
		var err error
		run, err = rig.run("ok", false, args...)
		if err != nil {
			return ev.Result{}, ev.Inconclusivef("%v", err)
		}
	}
	if run.exit != 0 || run.signaled {
		return ev.Result{}, fmt.Errorf("profiler failed (exit %d) for flags %v: %s", run.exit, args, clip(run.stderr, 500))
	}
	var got []string
	var loaded *seccomp.Policy
	if c.Format == "config" {
		p, err := loadLikeSandbox([]byte(run.stdout))
		if err != nil {
			// (also for an empty allow-list: the statement has the emitted profile load and answer errno to everything)
			return res, fmt.Errorf("the emitted YAML profile (%d names expected) does not load through the configuration path: %v\n%s", len(wantList), err, clip(run.stdout, 800))
		} else {
			loaded = p
			if len(p.Syscalls) == 0 && len(wantList) > 0 {
				return res, fmt.Errorf("the emitted profile has no group")
			}
			if p.DefaultAction != seccomp.ActionErrno {
				return res, fmt.Errorf("the emitted profile has default action %v, want errno", p.DefaultAction)
			}
			for _, g := range p.Syscalls {
				if g.Action != seccomp.ActionAllow || len(g.NamesWithCondtions) != 0 {
					return res, fmt.Errorf("the emitted profile has a group with action %v / conditions, want plain allow groups", g.Action)
				}
				got = append(got, g.Names...)
			}
		}
	} else {
		got, err = namesFromGo(run.stdout)
		if err != nil {
			return res, fmt.Errorf("the emitted Go profile does not parse: %v\n%s", err, clip(run.stdout, 800))
		}
		if !strings.Contains(run.stdout, "seccomp.ActionErrno") || !strings.Contains(run.stdout, "seccomp.ActionAllow") {
			return res, fmt.Errorf("the emitted Go profile lacks the errno default / allow group")
		}
	}
	if len(got) == 0 && len(wantList) == 0 {
		res.Classes = append(res.Classes, "empty-result")
	} else if !reflect.DeepEqual(got, wantList) {
		if !sort.StringsAreSorted(got) {
			return res, fmt.Errorf("the emitted allow-list is not sorted: %v", clipNames(got))
		}
		return res, fmt.Errorf("emitted allow-list differs from (found - blacklist) + (allow ∩ table): got %d names, want %d; only in output: %v; missing: %v (blacklist %v, allow %v)",
			len(got), len(wantList), clipNames(diffNames(got, wantList)), clipNames(diffNames(wantList, got)), c.Blacklist, c.Allow)
	}
	for i := 1; i < len(got); i++ {
		if got[i] == got[i-1] {
			return res, fmt.Errorf("duplicate %q in the emitted allow-list", got[i])
		}
	}
	for _, n := range got {
		if _, ok := tbl[n]; !ok {
			return res, fmt.Errorf("the emitted allow-list contains %q, which is not a syscall of %s", n, archName)
		}
	}
	// closure: the YAML profile, loaded as the sandbox would and compiled for the
	// binary's architecture, allows exactly those syscalls and answers errno to all others
	if loaded != nil {
		if len(wantList) == 0 {
			res.Classes = append(res.Classes, "empty-profile-loads-and-denies-everything")
		}
		seccomp.VerifSetArch(loaded, spec.ArchInfo(archName))
		insts, err, pan := assembleHost(loaded)
		if pan != nil || err != nil {
			return res, fmt.Errorf("the emitted profile does not compile for %s: %v %v", archName, err, pan)
		}
		prog, err := toRaw(insts)
		if err != nil {
			return res, fmt.Errorf("profile program does not encode: %v", err)
		}
		allowed := map[uint32]bool{}
		for _, n := range wantList {
			nr, ok := oracle.Table(archName)[n]
			if !ok {
				nr = tbl[n]
			}
			allowed[uint32(nr)] = true
		}
		var probes []uint32
		for _, nr := range tableNumbers(archName) {
			probes = append(probes, uint32(nr), uint32(nr)+1)
		}
		probes = append(probes, 0, 5000, 0x3fffffff, 0xffff)
		errnoRet := oracle.Const("SECCOMP_RET_ERRNO") | oracle.Const("EPERM")
		for _, nr := range probes {
			e := spec.Event{Arch: oracle.ArchID(archName), Nr: nr}
			w := e.Words(hostOrder())
			r, err := cbpf.Run(prog, &w, nil)
			if err != nil {
				return res, fmt.Errorf("profile program fails on nr %d: %v", nr, err)
			}
			wantRet := errnoRet
			if allowed[nr] {
				wantRet = oracle.Const("SECCOMP_RET_ALLOW")
			}
			if r != wantRet {
				return res, fmt.Errorf("the loaded profile answers %#x for syscall %d (%s), want %#x", r, nr, spec.ArchInfo(archName).SyscallNumbers[int(nr)], wantRet)
			}
		}
		res.Classes = append(res.Classes, "closure-checked")
		res.Sub = len(probes)
	}
	if removed > 0 && added > 0 {
		res.NonTrivial = true
		res.Classes = append(res.Classes, "blacklist-removes-and-allow-adds")
	}
	if c.Sites > c.Distinct {
		res.NonTrivial = true
		res.Classes = append(res.Classes, "duplicate-sites")
	}
	if len(wantList) > 255 {
		res.Classes = append(res.Classes, "names>255")
	}
	return res, nil
}

func diffNames(a, b []string) []string {
	in := map[string]bool{}
	for _, x := range b {
		in[x] = true
	}
	var out []string
	for _, x := range a {
		if !in[x] {
			out = append(out, x)
		}
	}
	return out
}

func TestC18Profiles(t *testing.T) {
	ev.Prop(t, "C18", "profile", drawC18, checkC18)
}
