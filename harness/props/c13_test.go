package props

import (
	"bytes"
	"context"
	"encoding/json"
	"errors"
	"fmt"
	"io"
	"os"
	"os/exec"
	"path/filepath"
	"reflect"
	"strings"
	"sync"
	"testing"
	"time"
	"unsafe"

	seccomp "github.com/elastic/go-seccomp-bpf"
	"github.com/elastic/go-seccomp-bpf/arch"
	"golang.org/x/net/bpf"
	"pgregory.net/rapid"

	"verif/harness/internal/ev"
	"verif/harness/internal/gen"
	"verif/harness/internal/kchild"
	"verif/harness/internal/oracle"
	"verif/harness/internal/spec"
)

// C13 — compilation is deterministic, side-effect free and race-free.

type c13Case struct {
	Policy spec.Policy   `json:"policy"`
	Others []spec.Policy `json:"others"`
	K      int           `json:"k"`          // compilations of the same value
	G      int           `json:"goroutines"` // concurrent kind only
	Shared bool          `json:"shared"`     // concurrent kind: shallow copies sharing slices
	// Spare: the caller's slices have spare capacity that other slices of the same policy live in: all Names of all
	// groups are consecutive sub-slices of one array (each with capacity up to the end of the array), likewise all
	// conditional entries and all condition lists. Writing "behind the end" of one slice then changes a neighbour.
	Spare bool `json:"spare,omitempty"`
	// Warm (concurrent kind): the value the copies are taken from was compiled once before they were taken
	Warm   bool   `json:"warm,omitempty"`
	OpCase uint64 `json:"op_case,omitempty"` // operation names spelled in other letter cases (seed of the spelling)
	Mutate string `json:"mutate,omitempty"`  // history kind: modify the value in place after the first compilations (default / group-action / drop-group)
}

type hdr struct {
	ptr      unsafe.Pointer
	len, cap int
}

// snapshot records a deep copy of the exported fields and all slice headers.
type snapshot struct {
	def    seccomp.Action
	groups []seccomp.SyscallGroup // deep copy
	hdrs   []hdr
	spare  []string // printed contents of every slice up to its capacity
}

// spareContents prints every slice of the policy up to its capacity (what lies behind the visible end belongs to the
// caller as well).
func spareContents(p *seccomp.Policy) []string {
	var out []string
	out = append(out, fmt.Sprintf("%+v", p.Syscalls[:cap(p.Syscalls)]))
	for _, g := range p.Syscalls {
		out = append(out, fmt.Sprintf("%q", g.Names[:cap(g.Names)]))
		out = append(out, fmt.Sprintf("%+v", g.NamesWithCondtions[:cap(g.NamesWithCondtions)]))
		for _, nc := range g.NamesWithCondtions {
			out = append(out, fmt.Sprintf("%+v", nc.Conditions[:cap(nc.Conditions)]))
		}
	}
	return out
}

// shareBacking rebuilds the slices of the policy as described at c13Case.Spare.
func shareBacking(p *seccomp.Policy) {
	nNames, nEntries, nConds := 0, 0, 0
	for _, g := range p.Syscalls {
		nNames += len(g.Names)
		nEntries += len(g.NamesWithCondtions)
		for _, nc := range g.NamesWithCondtions {
			nConds += len(nc.Conditions)
		}
	}
	names := make([]string, 0, nNames+2)
	entries := make([]seccomp.NameWithConditions, 0, nEntries+2)
	conds := make(seccomp.ArgumentConditions, 0, nConds+2)
	for i := range p.Syscalls {
		g := &p.Syscalls[i]
		if g.Names != nil {
			off := len(names)
			names = append(names, g.Names...)
			g.Names = names[off:len(names)]
		}
		if g.NamesWithCondtions != nil {
			off := len(entries)
			for _, nc := range g.NamesWithCondtions {
				if nc.Conditions != nil {
					co := len(conds)
					conds = append(conds, nc.Conditions...)
					nc.Conditions = conds[co:len(conds)]
				}
				entries = append(entries, nc)
			}
			g.NamesWithCondtions = entries[off:len(entries)]
		}
	}
	// sentinels in the unused tail, so that a write there shows as well
	names = append(names, "sentinel-a", "sentinel-b")
	entries = append(entries, seccomp.NameWithConditions{Name: "sentinel"}, seccomp.NameWithConditions{Name: "sentinel"})
	conds = append(conds, seccomp.Condition{Argument: 77}, seccomp.Condition{Argument: 78})
}

func headers(p *seccomp.Policy) []hdr {
	var h []hdr
	h = append(h, hdr{unsafe.Pointer(unsafe.SliceData(p.Syscalls)), len(p.Syscalls), cap(p.Syscalls)})
	for i := range p.Syscalls {
		g := &p.Syscalls[i]
		h = append(h, hdr{unsafe.Pointer(unsafe.SliceData(g.Names)), len(g.Names), cap(g.Names)})
		h = append(h, hdr{unsafe.Pointer(unsafe.SliceData(g.NamesWithCondtions)), len(g.NamesWithCondtions), cap(g.NamesWithCondtions)})
		for j := range g.NamesWithCondtions {
			c := g.NamesWithCondtions[j].Conditions
			h = append(h, hdr{unsafe.Pointer(unsafe.SliceData(c)), len(c), cap(c)})
		}
	}
	return h
}

func takeSnapshot(p *seccomp.Policy) snapshot {
	s := snapshot{def: p.DefaultAction, hdrs: headers(p), spare: spareContents(p)}
	for _, g := range p.Syscalls {
		g2 := seccomp.SyscallGroup{Action: g.Action}
		if g.Names != nil {
			g2.Names = append([]string{}, g.Names...)
		}
		for _, nc := range g.NamesWithCondtions {
			nc2 := seccomp.NameWithConditions{Name: nc.Name}
			if nc.Conditions != nil {
				nc2.Conditions = append(seccomp.ArgumentConditions{}, nc.Conditions...)
			}
			g2.NamesWithCondtions = append(g2.NamesWithCondtions, nc2)
		}
		s.groups = append(s.groups, g2)
	}
	return s
}

// unchanged compares exported fields (deeply, element by element) and slice headers.
func (s snapshot) unchanged(p *seccomp.Policy) error {
	if p.DefaultAction != s.def {
		return fmt.Errorf("DefaultAction changed from %v to %v", s.def, p.DefaultAction)
	}
	if len(p.Syscalls) != len(s.groups) {
		return fmt.Errorf("number of groups changed from %d to %d", len(s.groups), len(p.Syscalls))
	}
	for i, g := range p.Syscalls {
		w := s.groups[i]
		if g.Action != w.Action {
			return fmt.Errorf("action of group %d changed", i)
		}
		if !reflect.DeepEqual(g.Names, w.Names) {
			return fmt.Errorf("Names of group %d changed: %v -> %v", i, clipNames(w.Names), clipNames(g.Names))
		}
		if len(g.NamesWithCondtions) != len(w.NamesWithCondtions) {
			return fmt.Errorf("number of conditional entries of group %d changed", i)
		}
		for j, nc := range g.NamesWithCondtions {
			if nc.Name != w.NamesWithCondtions[j].Name || !reflect.DeepEqual(nc.Conditions, w.NamesWithCondtions[j].Conditions) {
				return fmt.Errorf("conditional entry %d of group %d changed: %+v -> %+v", j, i, w.NamesWithCondtions[j], nc)
			}
		}
	}
	now := headers(p)
	if len(now) != len(s.hdrs) {
		return fmt.Errorf("slice structure changed")
	}
	if sp := spareContents(p); len(sp) == len(s.spare) {
		for i := range sp {
			if sp[i] != s.spare[i] {
				return fmt.Errorf("memory of the caller's slice %d (up to its capacity) changed: %s -> %s", i, clip(s.spare[i], 300), clip(sp[i], 300))
			}
		}
	}
	for i := range now {
		if now[i] != s.hdrs[i] {
			return fmt.Errorf("slice header %d changed: (%p,%d,%d) -> (%p,%d,%d)", i, s.hdrs[i].ptr, s.hdrs[i].len, s.hdrs[i].cap, now[i].ptr, now[i].len, now[i].cap)
		}
	}
	return nil
}

func clipNames(n []string) []string {
	if len(n) > 8 {
		return append(append([]string{}, n[:8]...), "…")
	}
	return n
}

func assembleAny(p *seccomp.Policy) (insts []bpf.Instruction, err error, pan any) {
	defer func() { pan = recover() }()
	insts, err = p.Assemble()
	return
}

func sameOutcome(a []bpf.Instruction, aerr error, b []bpf.Instruction, berr error) error {
	if (aerr == nil) != (berr == nil) {
		return fmt.Errorf("one compilation failed (%v), the other did not (%v)", aerr, berr)
	}
	if aerr != nil {
		return nil
	}
	if !reflect.DeepEqual(a, b) {
		return fmt.Errorf("programs differ (%d vs %d instructions, first difference at %d)", len(a), len(b), firstDiff(a, b))
	}
	return nil
}

func mergePath(p *spec.Policy) bool {
	for _, g := range p.Groups {
		seen := map[string]bool{}
		for _, ce := range g.Conds {
			if seen[ce.Name] {
				return true
			}
			seen[ce.Name] = true
		}
	}
	return false
}

func drawC13(t *rapid.T) c13Case {
	archName := drawArch(t)
	prof := []gen.Profile{gen.Small, gen.CondHeavy, gen.CondHeavy, gen.NamesOnly, gen.Long, gen.Degenerate}[rapid.IntRange(0, 5).Draw(t, "profile")]
	c := c13Case{Policy: gen.Policy(t, archName, gen.Opts{Profile: prof}), K: rapid.IntRange(2, 5).Draw(t, "k")}
	n := rapid.IntRange(0, 2).Draw(t, "nOthers")
	for i := 0; i < n; i++ {
		c.Others = append(c.Others, gen.Policy(t, drawArch(t), gen.Opts{Profile: gen.Small}))
	}
	c.Spare = rapid.IntRange(0, 2).Draw(t, "spare") == 0
	if rapid.IntRange(0, 3).Draw(t, "mutate") == 0 {
		c.Mutate = []string{"default", "group-action", "drop-group", "retarget", "share-groups"}[rapid.IntRange(0, 4).Draw(t, "mutateKind")]
		if c.Mutate == "retarget" || c.Mutate == "share-groups" {
			c.Mutate += ":" + drawArch(t)
		}
	}
	// sometimes an invalid policy in between (error paths must not leave state behind either)
	if rapid.IntRange(0, 4).Draw(t, "invalidOther") == 0 {
		c.Others = append(c.Others, spec.Policy{Arch: archName, Default: 0x7fff0000, Groups: []spec.Group{{Action: 0, Names: []string{"read", "read", "nope"}}}})
	}
	if rapid.IntRange(0, 5).Draw(t, "opCase") == 0 {
		c.OpCase = rapid.Uint64Range(1, 1<<40).Draw(t, "opCaseSeed")
	}
	return c
}

func checkC13History(raw json.RawMessage) (ev.Result, error) {
	var c c13Case
	if err := json.Unmarshal(raw, &c); err != nil {
		return ev.Result{}, ev.Inconclusivef("bad case: %v", err)
	}
	if c.OpCase != 0 {
		c.Policy = *mangleOps(&c.Policy, c.OpCase)
	}
	sp := c.Policy.ToSeccomp()
	if c.Spare {
		shareBacking(sp)
	}
	snap := takeSnapshot(sp)
	first, ferr, pan := assembleAny(sp)
	if pan != nil {
		return ev.Result{}, fmt.Errorf("Assemble panicked: %v", pan)
	}
	if err := snap.unchanged(sp); err != nil {
		return ev.Result{}, fmt.Errorf("Assemble modified the caller's policy: %v", err)
	}
	// keep a private copy of the first result: later calls must not scribble over it either
	firstCopy := append([]bpf.Instruction(nil), first...)
	if c.K%2 == 1 && ferr == nil && len(first) > 0 {
		// the caller edits the program it was given (it owns it): later compilations must not be affected
		for k := range first {
			first[k] = bpf.RetConstant{Val: 0xdead0000 + uint32(k)}
		}
		_ = append(first, bpf.RetConstant{Val: 0xdeadffff})
		first = append([]bpf.Instruction(nil), firstCopy...)
	}
	dump0, dumpErr0 := dumpText(sp)
	for k := 1; k < c.K; k++ {
		for oi, o := range c.Others {
			osp := o.ToSeccomp()
			assembleAny(osp)
			// ... and printed, also into writers that fail or accept only part of the text
			func() {
				defer func() { recover() }()
				osp.Dump(&failingWriter{after: []int{0, 1, 17, 100, 1000}[(k+oi)%5], short: (k+oi)%2 == 0})
				osp.Dump(devNull{})
			}()
		}
		if d, derr := dumpText(sp); d != dump0 || (derr != nil) != (dumpErr0 != nil) {
			return ev.Result{}, fmt.Errorf("Dump of the same policy value gives another text on call %d (%d bytes, error %v) than on the first (%d bytes, error %v), after other policies were compiled and printed in between (some into failing writers):\n%s\n--- first:\n%s",
				k+1, len(d), derr, len(dump0), dumpErr0, clip(d, 600), clip(dump0, 600))
		}
		again, aerr, pan := assembleAny(sp)
		if pan != nil {
			return ev.Result{}, fmt.Errorf("Assemble panicked on call %d: %v", k+1, pan)
		}
		if err := sameOutcome(firstCopy, ferr, again, aerr); err != nil {
			return ev.Result{}, fmt.Errorf("call %d on the same policy value: %v", k+1, err)
		}
		if err := snap.unchanged(sp); err != nil {
			return ev.Result{}, fmt.Errorf("Assemble (call %d) modified the caller's policy: %v", k+1, err)
		}
		if ferr == nil && !reflect.DeepEqual(first, firstCopy) {
			return ev.Result{}, fmt.Errorf("the program returned by the first call was modified by a later call")
		}
	}
	// modify the caller's value in place (other default action, other action of a group, one name more or
	// fewer): the next compilation must be the one of the modified policy, i.e. equal to that of a fresh equal value
	if c.Mutate != "" {
		mod := c.Policy
		mod.Groups = append([]spec.Group(nil), c.Policy.Groups...)
		acts := []uint32{0x7fff0000, 0x00050000, 0x80000000, 0x7ffc0000, 0x00030000}
		other := func(a uint32) uint32 {
			for _, x := range acts {
				if x != a {
					return x
				}
			}
			return a
		}
		switch c.Mutate {
		case "default":
			mod.Default = other(mod.Default)
			sp.DefaultAction = seccomp.Action(mod.Default)
		case "group-action":
			if len(mod.Groups) > 0 {
				gi := len(mod.Groups) - 1
				mod.Groups[gi].Action = other(mod.Groups[gi].Action)
				sp.Syscalls[gi].Action = seccomp.Action(mod.Groups[gi].Action)
			}
		case "drop-group":
			if len(mod.Groups) > 1 {
				mod.Groups = mod.Groups[:len(mod.Groups)-1]
				sp.Syscalls = sp.Syscalls[:len(sp.Syscalls)-1]
			}
		default:
			// the same rules compiled for another architecture: the same value re-targeted, or a second policy value
			// that shares the group slice with the one compiled before
			kind, other, _ := strings.Cut(c.Mutate, ":")
			if spec.ArchInfo(other) == nil {
				return ev.Result{}, ev.Inconclusivef("unknown mutation %q", c.Mutate)
			}
			mod.Arch = other
			switch kind {
			case "retarget":
				seccomp.VerifSetArch(sp, spec.ArchInfo(other))
			case "share-groups":
				sp = &seccomp.Policy{DefaultAction: sp.DefaultAction, Syscalls: sp.Syscalls}
				seccomp.VerifSetArch(sp, spec.ArchInfo(other))
			default:
				return ev.Result{}, ev.Inconclusivef("unknown mutation %q", c.Mutate)
			}
			c.Mutate = kind
			if other != c.Policy.Arch {
				c.Mutate += "-other-architecture"
			}
		}
		got, gerr, pan := assembleAny(sp)
		if pan != nil {
			return ev.Result{}, fmt.Errorf("Assemble panicked after the policy was modified: %v", pan)
		}
		want, werr, _ := assembleAny(mod.ToSeccomp())
		if err := sameOutcome(want, werr, got, gerr); err != nil {
			return ev.Result{}, fmt.Errorf("after modifying the policy value in place (%s) Assemble does not return the program of the modified policy (a fresh equal value compiles differently): %v", c.Mutate, err)
		}
		res := ev.Result{Classes: []string{"history", "modified-between-compilations:" + c.Mutate}, NonTrivial: true}
		return res, nil
	}
	// an equal but distinct value
	fresh, frerr, _ := assembleAny(c.Policy.ToSeccomp())
	if err := sameOutcome(firstCopy, ferr, fresh, frerr); err != nil {
		return ev.Result{}, fmt.Errorf("equal policy values: %v", err)
	}
	res := ev.Result{Classes: []string{"history"}}
	if c.Spare {
		res.Classes = append(res.Classes, "caller-slices-share-one-backing-array")
	}
	if c.OpCase != 0 {
		res.Classes = append(res.Classes, "operation-names-in-other-letter-case")
	}
	if ferr != nil {
		res.Classes = append(res.Classes, "rejected-by-compiler")
		return res, nil
	}
	if mergePath(&c.Policy) {
		res.NonTrivial = true
		res.Classes = append(res.Classes, "same-name-entries-merged")
	}
	if len(c.Others) > 0 {
		res.Classes = append(res.Classes, "interleaved-with-other-policies")
	}
	return res, nil
}

func TestC13History(t *testing.T) {
	ev.Prop(t, "C13", "history", drawC13, checkC13History)
}

// ---- concurrency (this test is meant to run in the -race build) ----

func drawC13Conc(t *rapid.T) c13Case {
	archName := drawArch(t)
	prof := []gen.Profile{gen.Small, gen.CondHeavy, gen.CondHeavy, gen.Long}[rapid.IntRange(0, 3).Draw(t, "profile")]
	c := c13Case{Policy: gen.Policy(t, archName, gen.Opts{Profile: prof, MaxInsns: 3000}), K: 2,
		G: rapid.IntRange(2, 16).Draw(t, "goroutines"), Shared: rapid.Bool().Draw(t, "shared")}
	c.Others = append(c.Others, gen.Policy(t, drawArch(t), gen.Opts{Profile: gen.Small}))
	c.Warm = rapid.Bool().Draw(t, "warm")
	return c
}

func checkC13Concurrent(raw json.RawMessage) (ev.Result, error) {
	var c c13Case
	if err := json.Unmarshal(raw, &c); err != nil {
		return ev.Result{}, ev.Inconclusivef("bad case: %v", err)
	}
	announceCurrent("C13", "concurrent", raw)
	base := c.Policy.ToSeccomp()
	want, werr, pan := assembleAny(c.Policy.ToSeccomp())
	if pan != nil {
		return ev.Result{}, fmt.Errorf("Assemble panicked: %v", pan)
	}
	if c.Warm {
		assembleAny(base)
	}
	snap := takeSnapshot(base)
	g := c.G
	if g < 2 {
		g = 2
	}
	values := make([]*seccomp.Policy, g)
	for i := range values {
		if c.Shared {
			cp := *base // shallow copy: shares Syscalls, Names, NamesWithCondtions, Conditions
			values[i] = &cp
		} else {
			values[i] = c.Policy.ToSeccomp()
		}
	}
	other := c.Others[0].ToSeccomp()
	wantOther, wantOtherErr, _ := assembleAny(c.Others[0].ToSeccomp())
	type out struct {
		insts []bpf.Instruction
		err   error
		pan   any
		misc  error
	}
	outs := make([]out, g)
	var start, done sync.WaitGroup
	start.Add(1)
	for i := 0; i < g; i++ {
		done.Add(1)
		go func(i int) {
			defer done.Done()
			start.Wait()
			o := &outs[i]
			o.insts, o.err, o.pan = assembleAny(values[i])
			// concurrent lookups and text conversions
			for _, n := range []string{"amd64", "X86_64", "arm64", "386", "ppc64", "x32"} {
				arch.GetInfo(n)
			}
			var a seccomp.Action
			if err := a.Unpack("Kill_Process"); err != nil || a != seccomp.ActionKillProcess || a.String() != "kill_process" {
				o.misc = fmt.Errorf("concurrent Action.Unpack/String gave (%v, %v, %q)", err, a, a.String())
			}
			var op seccomp.Operation
			if err := op.Unpack("bitsnotset"); err != nil || op != seccomp.BitsNotSet {
				o.misc = fmt.Errorf("concurrent Operation.Unpack gave (%v, %q)", err, op)
			}
			if s := seccomp.FilterFlag(3).String(); s != seccomp.FilterFlag(3).String() {
				o.misc = fmt.Errorf("FilterFlag(3).String() differs between two calls")
			}
			if i%3 == 1 {
				oo, oerr, _ := assembleAny(c.Others[0].ToSeccomp())
				if err := sameOutcome(wantOther, wantOtherErr, oo, oerr); err != nil {
					o.misc = fmt.Errorf("another policy compiled concurrently: %v", err)
				}
			}
		}(i)
	}
	_ = other
	start.Done()
	done.Wait()
	for i, o := range outs {
		if o.pan != nil {
			return ev.Result{}, fmt.Errorf("goroutine %d: Assemble panicked: %v", i, o.pan)
		}
		if o.misc != nil {
			return ev.Result{}, fmt.Errorf("goroutine %d: %v", i, o.misc)
		}
		if err := sameOutcome(want, werr, o.insts, o.err); err != nil {
			return ev.Result{}, fmt.Errorf("goroutine %d of %d (shared slices: %v): %v", i, g, c.Shared, err)
		}
	}
	if err := snap.unchanged(base); err != nil {
		return ev.Result{}, fmt.Errorf("concurrent compilation modified the shared policy: %v", err)
	}
	res := ev.Result{Classes: []string{"concurrent", fmt.Sprintf("goroutines>=%d", g/4*4)}}
	if c.Shared {
		res.Classes = append(res.Classes, "shared-slices")
		if c.Warm {
			res.Classes = append(res.Classes, "copies-of-a-value-that-was-compiled-before")
		}
	}
	res.NonTrivial = c.Shared || mergePath(&c.Policy)
	return res, nil
}

// announceCurrent leaves the running case on disk, so that the driver can turn
// a report of the race detector (which kills the process) into a replay file.
func announceCurrent(id, kind string, raw json.RawMessage) {
	dir := os.Getenv("VERIF_REPLAY_DIR")
	if dir == "" {
		return
	}
	path := filepath.Join(dir, fmt.Sprintf("%s-%s-current-%s.json", id, kind, os.Getenv("VERIF_SHARD")))
	b, _ := json.Marshal(map[string]any{"property": id, "kind": kind, "race": true, "case": raw})
	if os.WriteFile(path, b, 0o644) == nil {
		fmt.Printf("CURRENT-CASE property=%s kind=%s file=%s\n", id, kind, path)
	}
}

func TestC13Concurrent(t *testing.T) {
	ev.Prop(t, "C13", "concurrent", drawC13Conc, checkC13Concurrent)
}

// ---- text forms are functions of the value ----

type c13TextCase struct {
	Flag uint32 `json:"flag"`
}

func checkC13Text(raw json.RawMessage) (ev.Result, error) {
	var c c13TextCase
	if err := json.Unmarshal(raw, &c); err != nil {
		return ev.Result{}, ev.Inconclusivef("bad case: %v", err)
	}
	first := seccomp.FilterFlag(c.Flag).String()
	for i := 0; i < 64; i++ {
		if s := seccomp.FilterFlag(c.Flag).String(); s != first {
			return ev.Result{}, fmt.Errorf("FilterFlag(%#x).String() returned %q and then %q", c.Flag, first, s)
		}
		b, _ := seccomp.FilterFlag(c.Flag).MarshalText()
		if string(b) != first {
			return ev.Result{}, fmt.Errorf("FilterFlag(%#x).MarshalText() returned %q, String() %q", c.Flag, b, first)
		}
		a := seccomp.Action(c.Flag)
		if a.String() != seccomp.Action(c.Flag).String() {
			return ev.Result{}, fmt.Errorf("Action(%#x).String() is not stable", c.Flag)
		}
		// what a conversion returns belongs to the caller: writing into it (in place, or behind its end) must not show
		// in any later conversion
		for _, act := range []seccomp.Action{a, seccomp.Action(oracle.ActionList()[int(c.Flag)%7])} {
			want := act.String()
			t1, err1 := act.MarshalText()
			if err1 == nil {
				for k := range t1 {
					t1[k] = 'X'
				}
				_ = append(t1, "-scribble"...)
				t2, _ := act.MarshalText()
				if string(t2) != want || act.String() != want {
					return ev.Result{}, fmt.Errorf("after the caller wrote into the bytes returned by Action(%#x).MarshalText(), the next conversion gives %q / %q, the text form is %q", uint32(act), t2, act.String(), want)
				}
			}
		}
		if b2, err := seccomp.FilterFlag(c.Flag).MarshalText(); err == nil {
			for k := range b2 {
				b2[k] = 'X'
			}
			_ = append(b2, "-scribble"...)
			if b3, _ := seccomp.FilterFlag(c.Flag).MarshalText(); string(b3) != first {
				return ev.Result{}, fmt.Errorf("after the caller wrote into the bytes returned by FilterFlag(%#x).MarshalText(), the next conversion gives %q instead of %q", c.Flag, b3, first)
			}
		}
	}
	bits := 0
	for v := c.Flag & 3; v != 0; v &= v - 1 {
		bits++
	}
	return ev.Result{Classes: []string{"text"}, NonTrivial: bits >= 2}, nil
}

func TestC13Text(t *testing.T) {
	ev.Register("C13", "text", checkC13Text)
	for v := uint32(0); v < 16; v++ {
		if !ev.CheckOne(t, "C13", "text", c13TextCase{v}, checkC13Text) {
			return
		}
	}
	ev.Prop(t, "C13", "text", func(t *rapid.T) c13TextCase { return c13TextCase{rapid.Uint32().Draw(t, "flag")} }, checkC13Text)
}

// ---- across processes ----

type c13ProcCase struct {
	Corpus    []spec.Policy `json:"corpus"`
	Processes int           `json:"processes"`
}

func runDigest(corpusPath string) (map[string]string, error) {
	return runDigestOf("digest", corpusPath)
}

func runDigestOf(helper, corpusPath string) (map[string]string, error) {
	bin, err := kchild.Bin(helper)
	if err != nil {
		return nil, err
	}
	args := []string{}
	if corpusPath != "" {
		args = append(args, corpusPath)
	}
	out, err := exec.Command(bin, args...).Output()
	if err != nil {
		return nil, fmt.Errorf("digest helper: %v (%s)", err, out)
	}
	m := map[string]string{}
	for _, line := range strings.Split(string(out), "\n") {
		f := strings.Fields(line)
		if len(f) == 0 {
			continue
		}
		kv := strings.SplitN(f[0], "=", 2)
		if len(kv) == 2 {
			m[kv[0]] = kv[1]
		}
	}
	return m, nil
}

func checkC13Processes(raw json.RawMessage) (ev.Result, error) {
	var c c13ProcCase
	if err := json.Unmarshal(raw, &c); err != nil {
		return ev.Result{}, ev.Inconclusivef("bad case: %v", err)
	}
	dir, err := os.MkdirTemp(os.Getenv("VERIF_TMP"), "c13corpus")
	if err != nil {
		return ev.Result{}, ev.Inconclusivef("%v", err)
	}
	defer os.RemoveAll(dir)
	path := filepath.Join(dir, "corpus.json")
	b, _ := json.Marshal(c.Corpus)
	if err := os.WriteFile(path, b, 0o644); err != nil {
		return ev.Result{}, ev.Inconclusivef("%v", err)
	}
	var first map[string]string
	for i := 0; i < c.Processes; i++ {
		m, err := runDigest(path)
		if err != nil {
			return ev.Result{}, ev.Inconclusivef("%v", err)
		}
		if first == nil {
			first = m
			continue
		}
		for _, k := range []string{"programs", "texts"} {
			if m[k] != first[k] {
				return ev.Result{}, fmt.Errorf("process %d of %d computes a different %s digest than process 1 for the same corpus of %d policies (%s vs %s)", i+1, c.Processes, k, len(c.Corpus), m[k], first[k])
			}
		}
	}
	return ev.Result{Classes: []string{"processes"}, NonTrivial: true, Sub: c.Processes}, nil
}

func corpusPolicies(n int, seedBase int) []spec.Policy {
	g := rapid.Custom(func(t *rapid.T) spec.Policy {
		prof := []gen.Profile{gen.Small, gen.CondHeavy, gen.NamesOnly, gen.Long}[rapid.IntRange(0, 3).Draw(t, "profile")]
		return gen.Policy(t, drawArch(t), gen.Opts{Profile: prof, MaxInsns: 3500})
	})
	var out []spec.Policy
	for i := 0; i < n; i++ {
		out = append(out, g.Example(seedBase+i))
	}
	return out
}

func TestC13Processes(t *testing.T) {
	ev.Register("C13", "processes", checkC13Processes)
	seed := int(shardSeed() % 1000000)
	rounds := ev.Scale(2, 8)
	for r := 0; r < rounds; r++ {
		c := c13ProcCase{Corpus: corpusPolicies(ev.Scale(40, 120), seed+1000*r), Processes: ev.Scale(6, 12)}
		if !ev.CheckOne(t, "C13", "processes", c, checkC13Processes) {
			return
		}
	}
}

// TestC13TextProcesses: the text forms (and every lookup-independent digest) from many fresh processes. An order that is
// frozen per process (e.g. taken from a map at initialisation) shows only as a difference between processes.
func TestC13TextProcesses(t *testing.T) {
	ev.Register("C13", "text-processes", checkC13TextProcesses)
	ev.CheckOne(t, "C13", "text-processes", c13ProcCase{Processes: ev.Scale(64, 400)}, checkC13TextProcesses)
}

func checkC13TextProcesses(raw json.RawMessage) (ev.Result, error) {
	var c c13ProcCase
	if err := json.Unmarshal(raw, &c); err != nil {
		return ev.Result{}, ev.Inconclusivef("bad case: %v", err)
	}
	first := ""
	classes := []string{"text-forms-across-processes"}
	for i := 0; i < c.Processes; i++ {
		// every fourth process is a 32-bit build of the same source (where there is one)
		helper := "digest"
		if i%4 == 1 {
			if _, err := kchild.Bin("digest_386"); err == nil {
				helper = "digest_386"
				if len(classes) == 1 {
					classes = append(classes, "text-forms-in-a-32-bit-process")
				}
			}
		}
		m, err := runDigestOf(helper, "")
		if err != nil {
			return ev.Result{}, ev.Inconclusivef("%v", err)
		}
		if i == 0 {
			first = m["texts"]
		} else if m["texts"] != first {
			return ev.Result{}, fmt.Errorf("process %d of %d (%s) prints a different text form for some action or filter-flag value than process 1 (digest over FilterFlag 0..63 and named and unnamed action values up to 0xffffffff)", i+1, c.Processes, helper)
		}
	}
	return ev.Result{Classes: classes, NonTrivial: true, Sub: c.Processes}, nil
}

// ---- the first use of the library by a process happens in several goroutines at once (race build) ----

type c13FirstUseCase struct {
	Ops []string `json:"ops"`
	K   int      `json:"k"`
}

var c13FirstOps = []string{"getinfo-native", "getinfo-native", "assemble-native", "assemble-native", "getinfo-name", "dump", "action-text", "flag-text", "unpack"}

func drawC13FirstUse(t *rapid.T) c13FirstUseCase {
	n := rapid.IntRange(2, 16).Draw(t, "goroutines")
	c := c13FirstUseCase{K: rapid.IntRange(1, 3).Draw(t, "k")}
	same := rapid.IntRange(0, 2).Draw(t, "allSame") == 0
	first := c13FirstOps[rapid.IntRange(0, len(c13FirstOps)-1).Draw(t, "op")]
	for i := 0; i < n; i++ {
		op := first
		if !same {
			op = c13FirstOps[rapid.IntRange(0, len(c13FirstOps)-1).Draw(t, "op")]
		}
		c.Ops = append(c.Ops, op)
	}
	return c
}

func checkC13FirstUse(raw json.RawMessage) (ev.Result, error) {
	var c c13FirstUseCase
	if err := json.Unmarshal(raw, &c); err != nil {
		return ev.Result{}, ev.Inconclusivef("bad case: %v", err)
	}
	bin, err := kchild.Bin("racefirst")
	if err != nil {
		return ev.Result{}, ev.Inconclusivef("%v", err)
	}
	plan, _ := json.Marshal(c)
	ctx, cancel := context.WithTimeout(context.Background(), 60*time.Second)
	defer cancel()
	cmd := exec.CommandContext(ctx, bin, string(plan))
	cmd.Env = append(os.Environ(), "GORACE=halt_on_error=1 exitcode=66 atexit_sleep_ms=0")
	var so, se bytes.Buffer
	cmd.Stdout, cmd.Stderr = &so, &se
	rerr := cmd.Run()
	if ctx.Err() != nil {
		return ev.Result{}, ev.Inconclusivef("helper timed out")
	}
	if strings.Contains(se.String(), "WARNING: DATA RACE") {
		return ev.Result{}, fmt.Errorf("data race when the first use of the library by a process happens in %d goroutines at once (%v):\n%s", len(c.Ops), c.Ops, clip(se.String(), 1800))
	}
	if rerr != nil {
		return ev.Result{}, ev.Inconclusivef("helper failed: %v (%s)", rerr, clip(se.String(), 300))
	}
	var results []string
	if err := json.Unmarshal(bytes.TrimSpace(so.Bytes()), &results); err != nil || len(results) != len(c.Ops) {
		return ev.Result{}, ev.Inconclusivef("helper output %q", clip(so.String(), 200))
	}
	// goroutines that did the same thing saw the same result
	seen := map[string]string{}
	for i, op := range c.Ops {
		if strings.HasPrefix(results[i], "panic:") {
			return ev.Result{}, fmt.Errorf("goroutine %d (%s) panicked: %s", i, op, results[i])
		}
		if op == "unpack" && results[i] != "ok" {
			return ev.Result{}, fmt.Errorf("goroutine %d of %d parsing names while the library is used for the first time by the process: %s", i, len(c.Ops), results[i])
		}
		if op == "getinfo-name" || op == "action-text" || op == "flag-text" {
			continue // result depends on the goroutine index
		}
		if prev, ok := seen[op]; ok && prev != results[i] {
			return ev.Result{}, fmt.Errorf("concurrent first uses (%s) gave different results: %q and %q", op, prev, results[i])
		}
		seen[op] = results[i]
	}
	return ev.Result{Classes: []string{"first-use-concurrent"}, NonTrivial: len(seen) > 0, Sub: len(c.Ops)}, nil
}

func TestC13FirstUse(t *testing.T) {
	ev.Prop(t, "C13", "first-use", drawC13FirstUse, checkC13FirstUse)
}

// The same helper for C14: names parse to exactly the documented constants also when the parsers are used for the
// first time by several goroutines at once (plans made of parsing only, or parsing next to other first uses).
func TestC14FirstUse(t *testing.T) {
	ev.Prop(t, "C14", "first-use", func(t *rapid.T) c13FirstUseCase {
		n := rapid.IntRange(2, 16).Draw(t, "goroutines")
		c := c13FirstUseCase{K: rapid.IntRange(1, 3).Draw(t, "k")}
		for i := 0; i < n; i++ {
			op := "unpack"
			if rapid.IntRange(0, 4).Draw(t, "other") == 0 {
				op = c13FirstOps[rapid.IntRange(0, len(c13FirstOps)-1).Draw(t, "op")]
			}
			c.Ops = append(c.Ops, op)
		}
		return c
	}, checkC13FirstUse)
}

// compilation in other processes (other build, enclosing filters): "identical instruction sequences ... across processes"
func TestC13OtherProcesses(t *testing.T) {
	check := checkChildCompile("C13")
	ev.Register("C13", "other-process", check)
	seed := int(shardSeed() % 1000000)
	for k, cfg := range childConfigs {
		c := childCompileCase{GOARCH: cfg.goarch, Outer: cfg.outer, Corpus: childCorpusC01(ev.Scale(30, 300), seed+3000*k), Seed: uint64(seed)}
		if !ev.CheckOne(t, "C13", "other-process", c, check) {
			return
		}
	}
}

// dumpText is the listing Policy.Dump prints.
func dumpText(p *seccomp.Policy) (text string, err error) {
	defer func() {
		if x := recover(); x != nil {
			err = fmt.Errorf("panic: %v", x)
		}
	}()
	var b bytes.Buffer
	err = p.Dump(&b)
	return b.String(), err
}

// failingWriter accepts `after` bytes; then it fails, or (short) reports fewer bytes written than it was given.
type failingWriter struct {
	after int
	short bool
	n     int
}

func (w *failingWriter) Write(p []byte) (int, error) {
	if w.n+len(p) <= w.after {
		w.n += len(p)
		return len(p), nil
	}
	k := w.after - w.n
	if k < 0 {
		k = 0
	}
	w.n += k
	if w.short {
		return k, io.ErrShortWrite
	}
	return k, errors.New("write failed")
}
