package props

import (
	"encoding/json"
	"fmt"
	"runtime"
	"strings"
	"testing"

	seccomp "github.com/elastic/go-seccomp-bpf"
	"github.com/elastic/go-seccomp-bpf/arch"
	"pgregory.net/rapid"

	"verif/harness/internal/cbpf"
	"verif/harness/internal/ev"
	"verif/harness/internal/gen"
	"verif/harness/internal/oracle"
	"verif/harness/internal/spec"
)

// C07 — invalid policies are rejected, never mis-compiled; valid ones are accepted.

type c07Case struct {
	Policy spec.Policy `json:"policy"`
	Seed   uint64      `json:"seed"`
	// Injected is informational (what the generator did); the verdict is
	// derived from the policy itself by judge().
	Injected string `json:"injected"`
	// Prev: history of the Policy value handed to the compiler: "" fresh; "valid-before" = the value held a valid policy,
	// was compiled successfully, and was then overwritten field by field with this one; "invalid-before" = it held a
	// policy that was rejected.
	Prev string `json:"prev,omitempty"`
}

func c07Compile(p *spec.Policy, prev string) (c *compiled, err error, panicked any) {
	if prev == "" {
		return compilePolicy(p)
	}
	defer func() {
		if x := recover(); x != nil {
			panicked = x
		}
	}()
	before := spec.Policy{Arch: p.Arch, Default: oracle.Const("SECCOMP_RET_ALLOW"), Groups: []spec.Group{{Action: oracle.Const("SECCOMP_RET_ERRNO"), Names: gen.Subset(gen.Universe(p.Arch), 7, 3)}}}
	if prev == "invalid-before" {
		before.Groups[0].Names = append(before.Groups[0].Names, before.Groups[0].Names[0], "no_such_syscall")
	}
	sp := before.ToSeccomp()
	sp.Assemble()
	q := p.ToSeccomp()
	sp.DefaultAction, sp.Syscalls = q.DefaultAction, q.Syscalls
	insts, err := sp.Assemble()
	if err != nil {
		return nil, err, nil
	}
	return &compiled{insts: insts}, nil, nil
}

type verdict struct {
	defects   []string // defect classes of the statement that are present
	noClaim   []string // reasons why acceptance is not claimed (but rejection is not required either)
	caseOps   bool     // some operation differs from a documented one only in ASCII case
	positions []string
}

func isDocumentedOp(op string) bool {
	for _, o := range spec.Ops {
		if o == op {
			return true
		}
	}
	return false
}

func canonicalOp(op string) (string, bool) {
	for _, o := range spec.Ops {
		if strings.EqualFold(o, op) && isASCII(op) {
			return o, true
		}
	}
	return "", false
}

func isASCII(s string) bool {
	for i := 0; i < len(s); i++ {
		if s[i] >= 0x80 {
			return false
		}
	}
	return true
}

// judge applies the statement of C07 to a policy value.
// libraryNamesUserNotif: the tree under test gives SECCOMP_RET_USER_NOTIF a name of its own (its text form parses back to
// it and is not the text of an arbitrary unknown value). The pinned tree exports the constant without a name; a tree that
// names it has made it one of its documented actions, and whether it may then be a default action is not settled here.
func libraryNamesUserNotif() (named bool) {
	defer func() {
		if recover() != nil {
			named = false
		}
	}()
	a := seccomp.Action(0x7fc00000)
	s := a.String()
	var b seccomp.Action
	return b.Unpack(s) == nil && b == a && s != seccomp.Action(0x12345).String()
}

func judge(p *spec.Policy) (v verdict, inconclusive string) {
	if p.Default == 0x7fc00000 && libraryNamesUserNotif() {
		v.noClaim = append(v.noClaim, "default action user_notif in a tree that gives that action a name")
	} else if oracle.ActionName(p.Default) == "" {
		v.defects = append(v.defects, "unknown-default-action")
	}
	if len(p.Groups) == 0 {
		v.defects = append(v.defects, "no-groups")
	}
	info := spec.ArchInfo(p.Arch)
	known := func(n string) (bool, bool) {
		_, lib := info.SyscallNames[n]
		_, orc := oracle.Table(p.Arch)[n]
		if lib && orc {
			return true, true
		}
		if !lib && !orc {
			return false, true
		}
		return false, false // ambiguous: only one side knows the name
	}
	pos := func(gi, i, n int) string {
		s := "first"
		if gi > 0 {
			s = "later-group"
		} else if i > 0 {
			s = "later-position"
		}
		return s
	}
	allEmpty := len(p.Groups) > 0
	for gi, g := range p.Groups {
		if len(g.Names) > 0 || len(g.Conds) > 0 {
			allEmpty = false
		}
		if oracle.ActionName(g.Action) == "" {
			// A kernel-defined action that carries data (ERRNO|n, TRACE|n, TRAP|n) or user_notif is not among the listed
			// defects: such a policy has to be accepted like any other. Values that are no seccomp return value at all
			// remain without a claim.
			switch base := g.Action & 0xffff0000; {
			case base == oracle.Const("SECCOMP_RET_ERRNO"), base == oracle.Const("SECCOMP_RET_TRACE"), base == oracle.Const("SECCOMP_RET_TRAP"), g.Action == 0x7fc00000:
			default:
				v.noClaim = append(v.noClaim, "group action that is no seccomp return value")
			}
		}
		seen := map[string]bool{}
		for i, n := range g.Names {
			k, sure := known(n)
			if !sure {
				return v, "name " + n + " known to only one of library/oracle"
			}
			if !k {
				v.defects = append(v.defects, "unknown-name")
				v.positions = append(v.positions, "unknown-name:"+pos(gi, i, len(g.Names)))
			}
			if seen[n] {
				v.defects = append(v.defects, "duplicate-name")
				v.positions = append(v.positions, "duplicate-name:"+pos(gi, i, len(g.Names)))
			}
			seen[n] = true
		}
		for i, ce := range g.Conds {
			k, sure := known(ce.Name)
			if !sure {
				return v, "name " + ce.Name + " known to only one of library/oracle"
			}
			if !k {
				v.defects = append(v.defects, "unknown-name")
				v.positions = append(v.positions, "unknown-name-conditional:"+pos(gi, i, len(g.Conds)))
			}
			if seen[ce.Name] {
				v.defects = append(v.defects, "conditional-and-unconditional")
				v.positions = append(v.positions, "conditional-and-unconditional:"+pos(gi, i, len(g.Conds)))
			}
			if len(ce.Conds) == 0 {
				v.noClaim = append(v.noClaim, "conditional entry without conditions")
			}
			for ci, c := range ce.Conds {
				if c.Arg > 5 {
					v.defects = append(v.defects, "argument-index>5")
					v.positions = append(v.positions, "argument-index>5:"+pos(gi, i+ci, 0))
				}
				if !isDocumentedOp(c.Op) {
					if _, ok := canonicalOp(c.Op); ok {
						v.caseOps = true
						v.positions = append(v.positions, "operation-case-variant:"+pos(gi, i+ci, 0))
					} else {
						v.defects = append(v.defects, "unimplemented-operation")
						cp := "first-in-list"
						if ci == len(ce.Conds)-1 && ci > 0 {
							cp = "last-in-list"
						} else if ci > 0 {
							cp = "middle-of-list"
						}
						v.positions = append(v.positions, "unimplemented-operation:"+cp, "unimplemented-operation:"+pos(gi, i+ci, 0))
					}
				}
			}
		}
	}
	if allEmpty {
		v.noClaim = append(v.noClaim, "all groups empty (close to the 'no groups' defect; both outcomes pass)")
	}
	if p.EstimateInsns() > cbpf.MaxInsns-200 {
		v.noClaim = append(v.noClaim, "may exceed 4096 instructions")
	}
	return v, ""
}

func checkC07(raw json.RawMessage) (ev.Result, error) {
	var c c07Case
	if err := json.Unmarshal(raw, &c); err != nil {
		return ev.Result{}, ev.Inconclusivef("bad case: %v", err)
	}
	p := &c.Policy
	v, inc := judge(p)
	if inc != "" {
		return ev.Result{}, ev.Inconclusivef("%s", inc)
	}
	res := ev.Result{}
	if c.Prev != "" {
		res.Classes = append(res.Classes, "value-history:"+c.Prev)
	}
	cp, cerr, pan := c07Compile(p, c.Prev)
	if pan != nil {
		return res, fmt.Errorf("Assemble panicked (injected: %s; defects %v): %v", c.Injected, v.defects, pan)
	}
	for _, pos := range v.positions {
		res.Classes = append(res.Classes, pos)
	}
	switch {
	case len(v.defects) > 0:
		for _, d := range v.defects {
			res.Classes = append(res.Classes, "defect:"+d)
		}
		if cerr == nil {
			return res, fmt.Errorf("policy with defect(s) %v was accepted (program of %d instructions returned, no error); injected: %s", v.defects, len(cp.insts), c.Injected)
		}
		if cp != nil && cp.insts != nil {
			return res, fmt.Errorf("error returned together with a program")
		}
		res.NonTrivial = false
		for _, pos := range v.positions {
			if !strings.HasSuffix(pos, ":first") && !strings.HasSuffix(pos, ":first-in-list") {
				res.NonTrivial = true
			}
		}
		if len(p.Groups) >= 2 {
			res.NonTrivial = true
		}
		if len(p.Groups) == 0 || v.defects[0] == "unknown-default-action" {
			res.NonTrivial = len(p.Groups) > 0
		}
		return res, nil
	case v.caseOps:
		res.Classes = append(res.Classes, "operation-spelled-in-other-case")
		if cerr != nil {
			res.Classes = append(res.Classes, "case-variant-rejected")
			return res, nil
		}
		// accepted: must behave exactly like the canonical spelling
		res.Classes = append(res.Classes, "case-variant-accepted")
		canon := *p
		canon.Groups = nil
		for _, g := range p.Groups {
			g2 := g
			g2.Conds = nil
			for _, ce := range g.Conds {
				ce2 := spec.CondEntry{Name: ce.Name}
				for _, cd := range ce.Conds {
					if o, ok := canonicalOp(cd.Op); ok {
						cd.Op = o
					}
					ce2.Conds = append(ce2.Conds, cd)
				}
				g2.Conds = append(g2.Conds, ce2)
			}
			canon.Groups = append(canon.Groups, g2)
		}
		if err := cp.encode(); err != nil {
			return res, fmt.Errorf("program does not encode: %v", err)
		}
		evs := gen.Events(&canon, c.Seed, gen.EventOpts{Own: true, PerNr: 3, MaxNrs: 40, Consts: cp.consts})
		if err := runEvents(&canon, cp, evs, hostOrder(), nil); err != nil {
			return res, fmt.Errorf("operation spelled in another letter case was accepted but the condition does not behave like the documented operation: %v", err)
		}
		res.NonTrivial = true
		res.Sub = len(evs)
		return res, nil
	default:
		if len(v.noClaim) > 0 {
			res.Classes = append(res.Classes, "no-claim")
			return res, nil
		}
		res.Classes = append(res.Classes, "valid-policy")
		if cerr != nil {
			return res, fmt.Errorf("valid policy rejected: %v", cerr)
		}
		if len(cp.insts) == 0 {
			return res, fmt.Errorf("valid policy accepted but no program returned")
		}
		hasEmpty, hasCond := false, false
		for _, g := range p.Groups {
			if len(g.Names) == 0 && len(g.Conds) == 0 {
				hasEmpty = true
			}
			if len(g.Conds) > 0 {
				hasCond = true
			}
		}
		if hasEmpty {
			res.Classes = append(res.Classes, "valid-with-empty-group")
		}
		// "never silently drops or weakens a rule": the accepted program decides a sample of events (every listed syscall,
		// argument values around the operands) as the policy says
		if err := cp.encode(); err != nil {
			return res, fmt.Errorf("valid policy accepted, but the program does not encode: %v", err)
		}
		evs := gen.Events(p, c.Seed, gen.EventOpts{Own: true, PerNr: 2, MaxNrs: 40, Consts: cp.consts})
		if err := runEvents(p, cp, evs, hostOrder(), nil); err != nil {
			return res, fmt.Errorf("valid policy accepted, but a rule was dropped or weakened: %v", err)
		}
		res.Sub = 1 + len(evs)
		res.NonTrivial = len(p.Groups) >= 2 && hasCond
		return res, nil
	}
}

var hostileNames = []string{"", " ", "READ", "Read", "read ", " read", "read\x00", "%d", "%s%s%s%n", "sys_read", "__NR_read", "rеad" /* cyrillic e */, "0", "-1", "read,write", "not_a_syscall", "\n"}

var hostileOps = []string{"", "Foo", "==", "!=", "Equal ", " Equal", "Equals", "Eq", "GreaterThanOrEqual", "BitsSet\x00", "NotEqual\n", "%d", "Εqual" /* greek E */}

var caseOps = []string{"equal", "EQUAL", "notequal", "greaterthan", "lessThan", "greaterorequal", "LESSOREQUAL", "bitsset", "bitsNotSet", "eQUAL"}

// names valid on another architecture only
func foreignOnlyName(t *rapid.T, archName string) (string, bool) {
	others := []string{}
	for _, a := range oracle.AllTables {
		if a != archName {
			others = append(others, a)
		}
	}
	o := others[rapid.IntRange(0, len(others)-1).Draw(t, "otherArch")]
	names := oracle.Names(o)
	start := rapid.IntRange(0, len(names)-1).Draw(t, "otherStart")
	info := spec.ArchInfo(archName)
	for i := 0; i < len(names); i++ {
		n := names[(start+i)%len(names)]
		if _, ok := info.SyscallNames[n]; ok {
			continue
		}
		if _, ok := oracle.Table(archName)[n]; ok {
			continue
		}
		return n, true
	}
	return "", false
}

func drawC07(t *rapid.T) c07Case {
	archName := drawArch(t)
	prof := []gen.Profile{gen.Small, gen.Small, gen.CondHeavy, gen.NamesOnly, gen.Degenerate}[rapid.IntRange(0, 4).Draw(t, "profile")]
	p := gen.Policy(t, archName, gen.Opts{Profile: prof, MaxInsns: 3000})
	c := c07Case{Policy: p, Seed: rapid.Uint64().Draw(t, "seed"), Injected: "none"}
	// make sure a conditional entry exists for the condition-level defects
	ensureCond := func() (gi, ei int) {
		var cands [][2]int
		for gi, g := range c.Policy.Groups {
			for ei := range g.Conds {
				cands = append(cands, [2]int{gi, ei})
			}
		}
		if len(cands) == 0 {
			u := gen.Universe(archName)
			n := u[rapid.IntRange(0, len(u)-1).Draw(t, "condName")]
			c.Policy.Groups = append(c.Policy.Groups, spec.Group{Action: c.Policy.Groups[0].Action,
				Conds: []spec.CondEntry{{Name: n, Conds: []spec.Cond{{Arg: 1, Op: "Equal", Val: 7}, {Arg: 2, Op: "LessThan", Val: 9}, {Arg: 5, Op: "BitsSet", Val: 1 << 40}}}}})
			return len(c.Policy.Groups) - 1, 0
		}
		k := cands[rapid.IntRange(0, len(cands)-1).Draw(t, "condPick")]
		return k[0], k[1]
	}
	badName := func() string {
		switch rapid.IntRange(0, 3).Draw(t, "badNameClass") {
		case 0:
			return hostileNames[rapid.IntRange(0, len(hostileNames)-1).Draw(t, "hostileName")]
		case 1:
			if n, ok := foreignOnlyName(t, archName); ok {
				return n
			}
			return "no_such_call"
		case 2:
			u := gen.Universe(archName)
			n := u[rapid.IntRange(0, len(u)-1).Draw(t, "nearMissBase")]
			switch rapid.IntRange(0, 3).Draw(t, "nearMiss") {
			case 0:
				return strings.ToUpper(n)
			case 1:
				return n + "x"
			case 2:
				return "x" + n
			default:
				return strings.ToUpper(n[:1]) + n[1:]
			}
		}
		return rapid.StringMatching(`[a-z_0-9]{1,12}z{3}`).Draw(t, "randName")
	}
	kind := rapid.IntRange(0, 11).Draw(t, "inject")
	if len(c.Policy.Groups) == 0 {
		kind = 0
	}
	switch kind {
	case 0, 1: // valid
	case 2:
		c.Injected = "unknown default action"
		switch rapid.IntRange(0, 3).Draw(t, "actClass") {
		case 0:
			c.Policy.Default = 0x7fc00000 // user_notif: a kernel action, but not one of the documented seven
		case 1:
			c.Policy.Default = oracle.ActionList()[rapid.IntRange(0, 6).Draw(t, "actBase")] + uint32(rapid.IntRange(1, 0xffff).Draw(t, "actDelta"))
		default:
			c.Policy.Default = rapid.Uint32().Draw(t, "actAny")
		}
		if oracle.ActionName(c.Policy.Default) != "" {
			c.Policy.Default = 0x12345
		}
	case 3:
		c.Injected = "no groups"
		c.Policy.Groups = nil
		c.Policy.NilGroups = rapid.Bool().Draw(t, "nilGroups")
	case 4:
		gi := rapid.IntRange(0, len(c.Policy.Groups)-1).Draw(t, "g")
		g := &c.Policy.Groups[gi]
		pos := rapid.IntRange(0, len(g.Names)).Draw(t, "pos")
		n := badName()
		g.Names = append(g.Names[:pos:pos], append([]string{n}, g.Names[pos:]...)...)
		c.Injected = fmt.Sprintf("unknown name %q in names of group %d at %d", n, gi, pos)
	case 5:
		gi, ei := ensureCond()
		n := badName()
		c.Policy.Groups[gi].Conds[ei].Name = n
		c.Injected = fmt.Sprintf("unknown name %q in conditional entry %d of group %d", n, ei, gi)
		if rapid.IntRange(0, 2).Draw(t, "withoutConditions") == 0 {
			// ... in an entry that carries no condition at all: the name is unknown all the same
			c.Policy.Groups[gi].Conds[ei].Conds = nil
			c.Injected += " (entry without conditions)"
		}
	case 6:
		var cands []int
		for gi, g := range c.Policy.Groups {
			if len(g.Names) > 0 {
				cands = append(cands, gi)
			}
		}
		if len(cands) == 0 {
			break
		}
		gi := cands[rapid.IntRange(0, len(cands)-1).Draw(t, "g")]
		g := &c.Policy.Groups[gi]
		src := rapid.IntRange(0, len(g.Names)-1).Draw(t, "src")
		pos := rapid.IntRange(0, len(g.Names)).Draw(t, "pos")
		n := g.Names[src]
		g.Names = append(g.Names[:pos:pos], append([]string{n}, g.Names[pos:]...)...)
		c.Injected = fmt.Sprintf("duplicate %q in group %d", n, gi)
	case 7:
		gi, ei := ensureCond()
		g := &c.Policy.Groups[gi]
		n := g.Conds[ei].Name
		pos := rapid.IntRange(0, len(g.Names)).Draw(t, "pos")
		g.Names = append(g.Names[:pos:pos], append([]string{n}, g.Names[pos:]...)...)
		c.Injected = fmt.Sprintf("%q listed with and without conditions in group %d", n, gi)
	case 8:
		gi, ei := ensureCond()
		ce := &c.Policy.Groups[gi].Conds[ei]
		ci := rapid.IntRange(0, len(ce.Conds)-1).Draw(t, "ci")
		var idx uint32
		switch rapid.IntRange(0, 3).Draw(t, "badIdxKind") {
		case 0:
			idx = []uint32{6, 7, 8, 64, 1 << 31, 0xffffffff, 0x20000000, 0x1ffffffe}[rapid.IntRange(0, 7).Draw(t, "badIdx")]
		case 1:
			idx = uint32(rapid.IntRange(6, 300).Draw(t, "badIdxSmall"))
		case 2:
			// indices whose byte offset 16+8*idx wraps around 2^32 onto a valid argument (or just beside one)
			idx = uint32(rapid.IntRange(1, 7).Draw(t, "wrapM"))<<29 + uint32(rapid.IntRange(0, 7).Draw(t, "wrapK")) - uint32(rapid.IntRange(0, 2).Draw(t, "wrapD"))
		default:
			idx = rapid.Uint32Range(6, 0xffffffff).Draw(t, "badIdxAny")
		}
		ce.Conds[ci].Arg = idx
		c.Injected = fmt.Sprintf("argument index %d at condition %d of entry %d of group %d", idx, ci, ei, gi)
	case 9, 10:
		gi, ei := ensureCond()
		ce := &c.Policy.Groups[gi].Conds[ei]
		ci := rapid.IntRange(0, len(ce.Conds)-1).Draw(t, "ci")
		op := hostileOps[rapid.IntRange(0, len(hostileOps)-1).Draw(t, "badOp")]
		ce.Conds[ci].Op = op
		c.Injected = fmt.Sprintf("operation %q at condition %d/%d of entry %d of group %d", op, ci, len(ce.Conds), ei, gi)
	case 11:
		gi, ei := ensureCond()
		ce := &c.Policy.Groups[gi].Conds[ei]
		ci := rapid.IntRange(0, len(ce.Conds)-1).Draw(t, "ci")
		op := caseOps[rapid.IntRange(0, len(caseOps)-1).Draw(t, "caseOp")]
		ce.Conds[ci].Op = op
		c.Injected = fmt.Sprintf("operation spelled %q at condition %d of entry %d of group %d", op, ci, ei, gi)
	}
	switch rapid.IntRange(0, 7).Draw(t, "prevValue") {
	case 0, 1:
		c.Prev = "valid-before"
	case 2:
		c.Prev = "invalid-before"
	}
	return c
}

func TestC07Validation(t *testing.T) {
	ev.Prop(t, "C07", "policy", drawC07, checkC07)
}

// checkC07Arch: architectures without tables are unsupported. arch.GetInfo of
// the GOARCH is the call Policy.Assemble makes on such a host.
func checkC07Arch(raw json.RawMessage) (ev.Result, error) {
	var c struct {
		Name string `json:"arch_name"`
	}
	if err := json.Unmarshal(raw, &c); err != nil {
		return ev.Result{}, ev.Inconclusivef("bad case: %v", err)
	}
	var info *arch.Info
	var err error
	var pan any
	func() {
		defer func() { pan = recover() }()
		info, err = arch.GetInfo(c.Name)
	}()
	if pan != nil {
		return ev.Result{}, fmt.Errorf("GetInfo(%q) panicked: %v", c.Name, pan)
	}
	class, _ := archClass(c.Name)
	if c.Name == "" {
		class, _ = archClass(runtime.GOARCH)
	}
	has := class == "alias"
	switch class {
	case "alias":
		if err != nil || info == nil || len(info.SyscallNames) == 0 || len(info.SyscallNumbers) == 0 {
			return ev.Result{}, fmt.Errorf("architecture %q has tables but GetInfo returned (%v, %v)", c.Name, info, err)
		}
	case "no-tables":
		if err == nil || info != nil {
			return ev.Result{}, fmt.Errorf("architecture %q has no syscall tables but GetInfo returned an Info without error (a policy would compile to a filter that matches nothing)", c.Name)
		}
	default:
		// unknown spelling: rejected, or resolved to something with tables - never an Info without tables
		if err == nil && (info == nil || len(info.SyscallNames) == 0 || len(info.SyscallNumbers) == 0) {
			return ev.Result{}, fmt.Errorf("GetInfo(%q) returns an Info without syscall tables and no error", c.Name)
		}
		return ev.Result{Classes: []string{"arch-lookup", "arch-name-of-unsettled-status"}}, nil
	}
	return ev.Result{Classes: []string{"arch-lookup"}, NonTrivial: !has}, nil
}

func TestC07Arch(t *testing.T) {
	ev.Register("C07", "arch", checkC07Arch)
	names := []string{"", "arm", "ppc", "ppc64", "ppc64le", "s390", "s390x", "mips", "mipsle", "mips64", "i386", "386", "x32", "x86_64", "amd64",
		"aarch64", "arm64", "mips64n32", "mips64p32", "mipsel64", "mips64le", "mipsel64n32", "mips64p32le",
		// remaining GOARCH values of `go tool dist list` and a few that never existed
		"loong64", "riscv64", "wasm", "riscv", "sparc64", "armbe", "arm64be", "amd64p32", "mipsel", "nosucharch"}
	n := 0
	for _, name := range names {
		for _, variant := range []string{name, strings.ToUpper(name)} {
			n++
			if !ev.CheckOne(t, "C07", "arch", map[string]any{"arch_name": variant}, checkC07Arch) {
				return
			}
		}
	}
	ev.Exhaustive("C07", "architecture names known to the package + GOARCH values", n)
}

// ---- acceptance at the kernel's size limit ----

type c07SizeCase struct {
	Arch   string `json:"arch"`
	Groups []int  `json:"groups"` // number of names per group (<= 200 each, so that no bridge is needed inside a group)
	Seed   uint64 `json:"seed"`
	Target int    `json:"target"` // aimed program length (informational)
}

func c07SizePolicy(c *c07SizeCase, drop int) spec.Policy {
	u := gen.Universe(c.Arch)
	p := spec.Policy{Arch: c.Arch, Default: oracle.Const("SECCOMP_RET_ERRNO")}
	for gi, n := range c.Groups {
		if gi == len(c.Groups)-1 {
			n -= drop
		}
		if n < 0 {
			n = 0
		}
		p.Groups = append(p.Groups, spec.Group{Action: oracle.Const("SECCOMP_RET_ALLOW"), Names: gen.Subset(u, c.Seed+uint64(gi), n)})
	}
	return p
}

// checkC07Size: a valid names-only policy near the 4096-instruction limit. The sizes of the two next smaller
// policies are measured (one and two names fewer) and extrapolated linearly: if the policy would fit the limit
// it must be accepted. Nothing is assumed about the layout except that one more name in the last group costs
// what the previous name cost.
func checkC07Size(raw json.RawMessage) (ev.Result, error) {
	var c c07SizeCase
	if err := json.Unmarshal(raw, &c); err != nil {
		return ev.Result{}, ev.Inconclusivef("bad case: %v", err)
	}
	if len(c.Groups) == 0 || c.Groups[len(c.Groups)-1] < 3 {
		return ev.Result{}, ev.Inconclusivef("last group too small")
	}
	length := func(drop int) (int, error) {
		p := c07SizePolicy(&c, drop)
		cp, err, pan := compilePolicy(&p)
		if pan != nil {
			return 0, fmt.Errorf("panic: %v", pan)
		}
		if err != nil {
			return -1, err
		}
		return len(cp.insts), nil
	}
	l1, e1 := length(1)
	l2, e2 := length(2)
	if l1 < 0 || l2 < 0 {
		return ev.Result{Classes: []string{"size:smaller-policies-rejected(no-claim)"}}, nil
	}
	if e1 != nil || e2 != nil {
		return ev.Result{}, fmt.Errorf("Assemble panicked near the size limit: %v %v", e1, e2)
	}
	predicted := l1 + (l1 - l2)
	l0, e0 := length(0)
	res := ev.Result{Classes: []string{"size-boundary", fmt.Sprintf("size-predicted:%s", sizeClass(predicted))}}
	if l0 >= 0 {
		if e0 != nil {
			return res, fmt.Errorf("Assemble panicked near the size limit: %v", e0)
		}
		res.Classes = append(res.Classes, fmt.Sprintf("size-accepted:%s", sizeClass(l0)))
		res.NonTrivial = l0 >= 4090
		return res, nil
	}
	if predicted <= 4096 {
		return res, fmt.Errorf("valid names-only policy (%d groups, %s) rejected although it fits the kernel's limit: with one name fewer it compiles to %d instructions, with two fewer to %d, so it needs %d <= 4096: %v",
			len(c.Groups), c.Arch, l1, l2, predicted, e0)
	}
	res.Classes = append(res.Classes, "size:too-large-rejected(allowed)")
	return res, nil
}

func sizeClass(n int) string {
	switch {
	case n < 4090:
		return "<4090"
	case n <= 4100:
		return fmt.Sprint(n)
	}
	return ">4100"
}

func drawC07Size(t *rapid.T) c07SizeCase {
	c := c07SizeCase{Arch: drawArch(t), Seed: rapid.Uint64().Draw(t, "seed"), Target: rapid.IntRange(4090, 4099).Draw(t, "target")}
	// every group of n names costs n+2 instructions here (n compares, the jump over the action, the action); the
	// fixed part is 4 (6 with the x32 guard). This estimate only steers the generator; the check measures.
	fixed := 4
	if c.Arch == "x86_64" {
		fixed = 6
	}
	rest := c.Target - fixed
	for rest > 0 {
		n := rapid.IntRange(60, 200).Draw(t, "groupNames")
		if rest-(n+2) < 8 {
			n = rest - 2
			if n > 200 {
				n = 150
			} else {
				if n < 3 {
					break
				}
				c.Groups = append(c.Groups, n)
				break
			}
		}
		c.Groups = append(c.Groups, n)
		rest -= n + 2
	}
	return c
}

func TestC07SizeBoundary(t *testing.T) {
	ev.Prop(t, "C07", "size-boundary", drawC07Size, checkC07Size)
}
