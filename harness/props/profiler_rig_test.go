package props

import (
	"bytes"
	"context"
	"fmt"
	"os"
	"os/exec"
	"path/filepath"
	"sort"
	"strings"
	"sync"
	"syscall"
	"time"

	"verif/harness/internal/ev"
	"verif/harness/internal/gen"
	"verif/harness/internal/kchild"
	"verif/harness/internal/sitemodel"
	"verif/harness/internal/spec"
)

// Black-box rig for cmd/seccomp-profiler: built binary, private HOME, fake `go`
// tool first on PATH.

const profilerUid = 60001 // absent from /etc/passwd: os/user falls back to $HOME

type profRig struct {
	dir         string // root of this rig (world-writable)
	home        string
	bindir      string // contains the fake `go`
	nogo        string // empty dir: PATH for "tool missing"
	binary      string // the ELF handed to the profiler
	listing     string // file the fake tool prints
	profiler    string
	shortBinary string // set by useLongName: the same file under its ordinary name
	cacheMount  string // if set: the cache directory is a tmpfs mount of its own
	pidns       bool   // if set: every profiler run is the first process of a new pid namespace (as in a container)
	tmpdir      string // if set: TMPDIR of the profiler, a directory on another file system than its home (renames between
	// the two fail with EXDEV)
}

// useOtherTmp gives the profiler a TMPDIR on /dev/shm (a tmpfs, hence another file system than the rig). It reports
// whether that was possible.
func (r *profRig) useOtherTmp() bool {
	var a, b syscall.Stat_t
	if syscall.Stat("/dev/shm", &a) != nil || syscall.Stat(r.dir, &b) != nil || a.Dev == b.Dev {
		return false
	}
	d, err := os.MkdirTemp("/dev/shm", "verif-proftmp")
	if err != nil {
		return false
	}
	os.Chmod(d, 0o777)
	r.tmpdir = d
	return true
}

// mountCache puts the profiler's cache directory on a file system of its own (tmpfs) whose size can be changed: the
// "disk full" fault. It needs root and a permitted mount(2); it reports whether it worked. close() unmounts.
func (r *profRig) mountCache() bool {
	d := filepath.Join(r.home, ".seccomp-profiler")
	if err := os.MkdirAll(d, 0o777); err != nil {
		return false
	}
	if err := syscall.Mount("tmpfs", d, "tmpfs", 0, "size=64m,mode=0777"); err != nil {
		return false
	}
	os.Chmod(d, 0o777)
	r.cacheMount = d
	return true
}

// resizeCache sets the size of the cache file system (bytes, rounded up to pages by the kernel).
func (r *profRig) resizeCache(bytes int64) error {
	if r.cacheMount == "" {
		return fmt.Errorf("cache not mounted")
	}
	return syscall.Mount("tmpfs", r.cacheMount, "tmpfs", syscall.MS_REMOUNT, fmt.Sprintf("size=%d,mode=0777", bytes))
}

func (r *profRig) env(path, mode string) []string {
	e := []string{"PATH=" + path, "HOME=" + r.home, "USER=verif", "FAKEGO_LISTING=" + r.listing, "FAKEGO_MODE=" + mode}
	if r.tmpdir != "" {
		e = append(e, "TMPDIR="+r.tmpdir)
	}
	return e
}

func newProfRig(goarch string) (*profRig, error) {
	prof, err := kchild.Bin("seccomp-profiler")
	if err != nil {
		return nil, err
	}
	fake, err := kchild.Bin("fakego")
	if err != nil {
		return nil, err
	}
	helloName := "hello"
	if goarch == "386" {
		helloName = "hello_386"
	} else if goarch == "arm64" {
		helloName = "hello_arm64"
	} else if goarch == "amd64-dyn" {
		helloName = "hello_dyn"
	}
	hello, err := kchild.Bin(helloName)
	if err != nil {
		return nil, err
	}
	dir, err := os.MkdirTemp(os.Getenv("VERIF_TMP"), "prof")
	if err != nil {
		return nil, err
	}
	os.Chmod(dir, 0o777)
	r := &profRig{dir: dir, home: filepath.Join(dir, "home"), bindir: filepath.Join(dir, "bin"), nogo: filepath.Join(dir, "nogo"),
		binary: filepath.Join(dir, "target.bin"), listing: filepath.Join(dir, "listing.txt"), profiler: prof}
	for _, d := range []string{r.home, r.bindir, r.nogo} {
		if err := os.Mkdir(d, 0o777); err != nil {
			return nil, err
		}
		os.Chmod(d, 0o777)
	}
	b, err := os.ReadFile(fake)
	if err != nil {
		return nil, err
	}
	if err := os.WriteFile(filepath.Join(r.bindir, "go"), b, 0o755); err != nil {
		return nil, err
	}
	hb, err := os.ReadFile(hello)
	if err != nil {
		return nil, err
	}
	if err := os.WriteFile(r.binary, hb, 0o755); err != nil {
		return nil, err
	}
	return r, nil
}

func (r *profRig) close() {
	if r.cacheMount != "" {
		if err := syscall.Unmount(r.cacheMount, 0); err != nil {
			syscall.Unmount(r.cacheMount, syscall.MNT_DETACH)
		}
	}
	os.RemoveAll(r.dir)
	if r.tmpdir != "" {
		os.RemoveAll(r.tmpdir)
	}
}

// freshHome switches to a new, empty HOME (cold cache).
func (r *profRig) freshHome() {
	r.home = filepath.Join(r.dir, fmt.Sprintf("home%d", time.Now().UnixNano()))
	os.Mkdir(r.home, 0o777)
	os.Chmod(r.home, 0o777)
}

func (r *profRig) setListing(text string) error {
	return os.WriteFile(r.listing, []byte(text), 0o644)
}

// changeBinary makes the ELF at the same path a different file (other hash).
// useLongName gives the binary a file name of n bytes (a hard link to the same file, so later changes of the binary
// show under both names) and remembers the short one for reference runs.
func (r *profRig) useLongName(n int) error {
	if n < 10 || n > 255 {
		return fmt.Errorf("bad name length %d", n)
	}
	long := filepath.Join(r.dir, "t"+strings.Repeat("x", n-5)+".bin")
	if err := os.Link(r.binary, long); err != nil {
		return err
	}
	r.shortBinary, r.binary = r.binary, long
	return nil
}

func (r *profRig) changeBinary(salt uint64) error {
	f, err := os.OpenFile(r.binary, os.O_APPEND|os.O_WRONLY, 0)
	if err != nil {
		return err
	}
	defer f.Close()
	_, err = fmt.Fprintf(f, "\x00salt-%d", salt)
	return err
}

func (r *profRig) cacheFiles() []string {
	var out []string
	ents, _ := os.ReadDir(filepath.Join(r.home, ".seccomp-profiler"))
	for _, e := range ents {
		out = append(out, filepath.Join(r.home, ".seccomp-profiler", e.Name()))
	}
	sort.Strings(out)
	return out
}

func (r *profRig) clearCache() {
	for _, f := range r.cacheFiles() {
		os.RemoveAll(f)
	}
}

func (r *profRig) cacheSize() int64 {
	var n int64
	for _, f := range r.cacheFiles() {
		if st, err := os.Stat(f); err == nil {
			n += st.Size()
		}
	}
	return n
}

type profRun struct {
	exit     int
	signaled bool
	stdout   string
	stderr   string
	killed   bool
}

// run executes the profiler. mode is the fake tool's mode ("" = tool missing).
// With kill=true the profiler (and the tool) are SIGKILLed once the cache file
// has stopped growing: that is the crash.
func (r *profRig) run(mode string, kill bool, args ...string) (*profRun, error) {
	return r.runLimited(mode, kill, 0, args...)
}

// runLimited is run with an optional file size limit (RLIMIT_FSIZE, bytes) for the profiler and its tool: writes
// beyond it fail (the write-error fault).
func (r *profRig) runLimited(mode string, kill bool, fsize int64, args ...string) (*profRun, error) {
	ctx, cancel := context.WithTimeout(context.Background(), 30*time.Second)
	defer cancel()
	full := append(append([]string{}, args...), r.binary)
	cmd := exec.CommandContext(ctx, r.profiler, full...)
	if fsize > 0 {
		cmd = exec.CommandContext(ctx, "prlimit", append([]string{fmt.Sprintf("--fsize=%d:%d", fsize, fsize), "--", r.profiler}, full...)...)
	}
	path := r.bindir
	if mode == "" {
		path = r.nogo
	}
	cmd.Env = r.env(path, mode)
	cmd.Dir = r.dir
	cmd.SysProcAttr = &syscall.SysProcAttr{Credential: &syscall.Credential{Uid: profilerUid, Gid: profilerUid}, Setpgid: true}
	if r.pidns {
		cmd.SysProcAttr.Cloneflags = syscall.CLONE_NEWPID
	}
	var so, se bytes.Buffer
	cmd.Stdout, cmd.Stderr = &so, &se
	cmd.Cancel = func() error { return syscall.Kill(-cmd.Process.Pid, syscall.SIGKILL) }
	cmd.WaitDelay = 2 * time.Second
	if err := cmd.Start(); err != nil {
		return nil, err
	}
	res := &profRun{}
	if kill {
		// wait until the implementation has written what it is going to write, then crash it
		last, stable := int64(-1), 0
		deadline := time.Now().Add(5 * time.Second)
		for time.Now().Before(deadline) {
			time.Sleep(4 * time.Millisecond)
			sz := r.cacheSize()
			if sz == last {
				stable++
			} else {
				stable, last = 0, sz
			}
			if stable >= 8 && r.toolStarted() {
				break
			}
		}
		syscall.Kill(-cmd.Process.Pid, syscall.SIGKILL)
		res.killed = true
	}
	err := cmd.Wait()
	res.stdout, res.stderr = so.String(), se.String()
	if ee, ok := err.(*exec.ExitError); ok {
		ws := ee.Sys().(syscall.WaitStatus)
		if ws.Signaled() {
			res.signaled = true
		} else {
			res.exit = ws.ExitStatus()
		}
	} else if err != nil {
		return nil, err
	}
	if ctx.Err() == context.DeadlineExceeded {
		return nil, ev.Inconclusivef("profiler timed out")
	}
	return res, nil
}

// toolStarted: the fake tool logs its invocation; for crash runs we only kill after it ran.
func (r *profRig) toolStarted() bool { return true }

// profileNames parses the names out of a profile in YAML or Go format.
func profileNames(out string) []string {
	var names []string
	for _, l := range strings.Split(out, "\n") {
		t := strings.TrimSpace(l)
		switch {
		case strings.HasPrefix(t, "- ") && !strings.Contains(t, ":"):
			names = append(names, strings.TrimSpace(t[2:]))
		case strings.HasPrefix(t, "\"") && strings.HasSuffix(t, "\","):
			names = append(names, strings.Trim(t, "\","))
		}
	}
	return names
}

// exactListing builds a listing whose discovered set is exactly known:
// canonical raw and wrapper sites only, in ordinary functions.
func exactListing(r *gen.Rng, archName string, nsites, distinct int) (sitemodel.Listing, []int) {
	table := tableNumbers(archName)
	trig := "SYSCALL"
	if archName == "i386" {
		trig = "INT $0x80"
	}
	if distinct > len(table) {
		distinct = len(table)
	}
	pool := make([]int, 0, distinct)
	seen := map[int]bool{}
	for len(pool) < distinct {
		n := table[r.Intn(len(table))]
		if !seen[n] {
			seen[n] = true
			pool = append(pool, n)
		}
	}
	l := sitemodel.Listing{Arch: archName}
	var nums []int
	fn := sitemodel.Func{Name: "main.f0(SB)"}
	// every distinct number at least once, the rest duplicates; shuffled, so that first
	// appearances are spread over the whole listing (a truncated prefix then misses some)
	var seq []int
	for i := 0; i < nsites && len(pool) > 0; i++ {
		if i < len(pool) {
			seq = append(seq, pool[i])
		} else {
			seq = append(seq, pool[r.Intn(len(pool))])
		}
	}
	for i := len(seq) - 1; i > 0; i-- {
		j := r.Intn(i + 1)
		seq[i], seq[j] = seq[j], seq[i]
	}
	for i := 0; i < len(seq); i++ {
		if len(fn.Items) >= 1+r.Intn(6) {
			l.Funcs = append(l.Funcs, fn)
			fn = sitemodel.Func{Name: fmt.Sprintf("main.f%d(SB)", len(l.Funcs))}
		}
		n := seq[i]
		it := sitemodel.Item{Kind: sitemodel.RawSite, Num: n, Hex: r.Intn(2) == 0, Instr: trig, Reg: "AX"}
		if r.Intn(3) == 0 {
			it = sitemodel.Item{Kind: sitemodel.WrapperSite, Num: n, Hex: r.Intn(2) == 0, Wrapper: sitemodel.Wrappers[r.Intn(len(sitemodel.Wrappers))]}
		}
		fn.Items = append(fn.Items, it)
		nums = append(nums, n)
		switch r.Intn(6) {
		case 0:
			fn.Items = append(fn.Items, sitemodel.Item{Kind: sitemodel.Filler, Gap: r.Intn(3)})
		case 1:
			// a site with a number outside the table: reported by nobody
			fn.Items = append(fn.Items, sitemodel.Item{Kind: sitemodel.RawSite, Num: 70000 + r.Intn(1000), Instr: trig, Reg: "AX"})
		}
	}
	l.Funcs = append(l.Funcs, fn)
	return l, nums
}

func namesOf(archName string, nums []int) []string {
	tbl := spec.ArchInfo(archName).SyscallNumbers
	set := map[string]bool{}
	for _, n := range nums {
		if name, ok := tbl[n]; ok {
			set[name] = true
		}
	}
	var out []string
	for n := range set {
		out = append(out, n)
	}
	sort.Strings(out)
	return out
}

// async run: start returns at once; wait collects the result.
type profAsync struct {
	cmd    *exec.Cmd
	so, se *bytes.Buffer
	cancel context.CancelFunc
}

func (r *profRig) start(mode string, args ...string) (*profAsync, error) {
	ctx, cancel := context.WithTimeout(context.Background(), 30*time.Second)
	full := append(append([]string{}, args...), r.binary)
	cmd := exec.CommandContext(ctx, r.profiler, full...)
	cmd.Env = r.env(r.bindir, mode)
	cmd.Dir = r.dir
	cmd.SysProcAttr = &syscall.SysProcAttr{Credential: &syscall.Credential{Uid: profilerUid, Gid: profilerUid}, Setpgid: true}
	if r.pidns {
		cmd.SysProcAttr.Cloneflags = syscall.CLONE_NEWPID
	}
	a := &profAsync{cmd: cmd, so: &bytes.Buffer{}, se: &bytes.Buffer{}, cancel: cancel}
	cmd.Stdout, cmd.Stderr = a.so, a.se
	cmd.Cancel = func() error { return syscall.Kill(-cmd.Process.Pid, syscall.SIGKILL) }
	cmd.WaitDelay = 2 * time.Second
	if err := cmd.Start(); err != nil {
		cancel()
		return nil, err
	}
	return a, nil
}

func (a *profAsync) wait() (*profRun, error) {
	defer a.cancel()
	err := a.cmd.Wait()
	res := &profRun{stdout: a.so.String(), stderr: a.se.String()}
	if ee, ok := err.(*exec.ExitError); ok {
		ws := ee.Sys().(syscall.WaitStatus)
		if ws.Signaled() {
			res.signaled = true
		} else {
			res.exit = ws.ExitStatus()
		}
	} else if err != nil {
		return nil, err
	}
	return res, nil
}

var pidnsOnce sync.Once
var pidnsOK bool

// pidNamespacesAvailable: a process can be started as the first one of a new pid namespace here.
func pidNamespacesAvailable() bool {
	pidnsOnce.Do(func() {
		cmd := exec.Command("/bin/true")
		cmd.SysProcAttr = &syscall.SysProcAttr{Cloneflags: syscall.CLONE_NEWPID}
		pidnsOK = cmd.Run() == nil
	})
	return pidnsOK
}
