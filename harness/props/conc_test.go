package props

import (
	"encoding/json"
	"fmt"
	"reflect"
	"sync"
	"testing"

	seccomp "github.com/elastic/go-seccomp-bpf"
	"github.com/elastic/go-seccomp-bpf/arch"
	"golang.org/x/net/bpf"
	"pgregory.net/rapid"

	"verif/harness/internal/cbpf"
	"verif/harness/internal/ev"
	"verif/harness/internal/gen"
	"verif/harness/internal/labelvm"
	"verif/harness/internal/model"
	"verif/harness/internal/oracle"
	"verif/harness/internal/spec"
)

// Independent values used by several goroutines at once. Neither property says "from one goroutine only": a program
// builder value (C06) and an architecture lookup (C12) share nothing a caller can see, so what one goroutine does with
// its own value must not depend on what other goroutines do with theirs. The oracle is the sequential result of the same
// operation; the schedule is whatever the Go scheduler produces for G goroutines released together (the harness does not
// own it, so these units find state shared between calls only if it is touched on most calls - which is the case
// for caches and scratch buffers - and say nothing about rarer interleavings).

type c06ConcCase struct {
	Progs []c06Case `json:"progs"`
	K     int       `json:"k"`
}

func c06Plain(c c06Case) labelvm.Program {
	if c.Dense != nil {
		return denseProgram(c.Dense)
	}
	return c.Prog
}

func drawC06Conc(t *rapid.T) c06ConcCase {
	c := c06ConcCase{K: rapid.IntRange(1, 4).Draw(t, "k")}
	n := rapid.IntRange(2, 8).Draw(t, "goroutines")
	for i := 0; i < n; i++ {
		p := drawLabelProgram(t)
		if p.Huge != nil {
			p = c06Case{Dense: &c06Dense{M: 30 + i*7, Cond: i}}
		}
		p.Again, p.ZeroAt = 0, 0
		c.Progs = append(c.Progs, p)
	}
	return c
}

func hasFarJump(p labelvm.Program) bool {
	for i, in := range p {
		if in.Kind == labelvm.Jump && (in.T-i-1 > 255 || (!in.Next && in.F-i-1 > 255)) {
			return true
		}
	}
	return false
}

func checkC06Conc(raw json.RawMessage) (ev.Result, error) {
	var c c06ConcCase
	if err := json.Unmarshal(raw, &c); err != nil {
		return ev.Result{}, ev.Inconclusivef("bad case: %v", err)
	}
	if len(c.Progs) < 2 || c.K < 1 || c.K > 16 {
		return ev.Result{}, ev.Inconclusivef("ill-formed case")
	}
	type outcome struct {
		insts []bpf.Instruction
		err   error
		pan   any
	}
	progs := make([]labelvm.Program, len(c.Progs))
	want := make([]outcome, len(c.Progs))
	far := 0
	for i := range c.Progs {
		progs[i] = c06Plain(c.Progs[i])
		if err := progs[i].Validate(); err != nil {
			return ev.Result{}, ev.Inconclusivef("generator produced an ill-formed program: %v", err)
		}
		if hasFarJump(progs[i]) {
			far++
		}
		var o outcome
		o.insts, o.err, o.pan = buildWithBuilder(progs[i], 0)
		if o.pan != nil {
			return ev.Result{}, ev.Inconclusivef("builder panics on program %d even when used alone (unit labels decides that)", i)
		}
		want[i] = o
	}
	got := make([][]outcome, len(progs))
	var start, done sync.WaitGroup
	start.Add(1)
	for i := range progs {
		done.Add(1)
		go func(i int) {
			defer done.Done()
			start.Wait()
			for k := 0; k < c.K; k++ {
				var o outcome
				o.insts, o.err, o.pan = buildWithBuilder(progs[i], 0)
				got[i] = append(got[i], o)
			}
		}(i)
	}
	start.Done()
	done.Wait()
	for i := range progs {
		for k, o := range got[i] {
			where := fmt.Sprintf("program %d of %d (%d label-level instructions), built for the %d. time by its own goroutine while %d other goroutines build their own programs", i+1, len(progs), len(progs[i]), k+1, len(progs)-1)
			if o.pan != nil {
				return ev.Result{}, fmt.Errorf("%s: the builder panicked (%v); built alone it does not", where, o.pan)
			}
			if (o.err != nil) != (want[i].err != nil) {
				return ev.Result{}, fmt.Errorf("%s: error %v, built alone %v", where, o.err, want[i].err)
			}
			if o.err == nil && !reflect.DeepEqual(o.insts, want[i].insts) {
				at := 0
				for at < len(o.insts) && at < len(want[i].insts) && o.insts[at] == want[i].insts[at] {
					at++
				}
				return ev.Result{}, fmt.Errorf("%s: %d instructions, built alone %d; first difference at instruction %d", where, len(o.insts), len(want[i].insts), at)
			}
		}
	}
	res := ev.Result{Classes: []string{"independent-programs-built-concurrently"}, Sub: len(progs) * c.K}
	if far >= 2 {
		res.NonTrivial = true
		res.Classes = append(res.Classes, "concurrent-builders-with-far-jumps")
	}
	return res, nil
}

func TestC06Concurrent(t *testing.T) {
	ev.Prop(t, "C06", "concurrent", drawC06Conc, checkC06Conc)
}

// ---- C12: lookups from several goroutines at once ----

type c12ConcCase struct {
	Names [][]string `json:"names"` // per goroutine, the spellings it looks up in turn
	K     int        `json:"k"`
}

var c12ConcSpellings = []string{"", "arm", "ARM", "i386", "I386", "386", "x86_64", "X86_64", "amd64", "AMD64", "Amd64", "aarch64", "AArch64", "arm64", "ARM64", "x32", "X32",
	"mips", "ppc64le", "s390x", "riscv64", "nope", "x86_64 "}

func drawC12Conc(t *rapid.T) c12ConcCase {
	c := c12ConcCase{K: rapid.IntRange(20, 200).Draw(t, "k")}
	g := rapid.IntRange(2, 12).Draw(t, "goroutines")
	for i := 0; i < g; i++ {
		n := rapid.IntRange(1, 3).Draw(t, "nNames")
		var l []string
		for j := 0; j < n; j++ {
			l = append(l, c12ConcSpellings[rapid.IntRange(0, len(c12ConcSpellings)-1).Draw(t, "name")])
		}
		c.Names = append(c.Names, l)
	}
	return c
}

func checkC12Conc(raw json.RawMessage) (ev.Result, error) {
	var c c12ConcCase
	if err := json.Unmarshal(raw, &c); err != nil {
		return ev.Result{}, ev.Inconclusivef("bad case: %v", err)
	}
	if len(c.Names) < 2 || c.K < 1 || c.K > 100000 {
		return ev.Result{}, ev.Inconclusivef("ill-formed case")
	}
	// expected answers: the documented aliases name their table, the empty name the table of this build, names of
	// architectures without tables are unsupported; for any other string the sequential answer is the reference
	type answer struct {
		info *arch.Info
		fail bool
	}
	want := map[string]answer{}
	tables := map[string]bool{}
	for _, l := range c.Names {
		for _, n := range l {
			if _, ok := want[n]; ok {
				continue
			}
			info, err := arch.GetInfo(n)
			a := answer{info, err != nil}
			switch class, table := archClass(n); {
			case n == "":
				if err != nil || info != spec.ArchInfo(hostArchName()) {
					return ev.Result{}, ev.Inconclusivef("GetInfo(\"\") is wrong even sequentially (unit alias decides that)")
				}
				tables[hostArchName()] = true
			case class == "alias":
				if err != nil || info != spec.ArchInfo(table) {
					return ev.Result{}, ev.Inconclusivef("GetInfo(%q) is wrong even sequentially (unit alias decides that)", n)
				}
				tables[table] = true
			case class == "no-tables":
				if err == nil {
					return ev.Result{}, ev.Inconclusivef("GetInfo(%q) is wrong even sequentially (unit alias decides that)", n)
				}
			}
			want[n] = a
		}
	}
	errs := make([]error, len(c.Names))
	var start, done sync.WaitGroup
	start.Add(1)
	for i := range c.Names {
		done.Add(1)
		go func(i int) {
			defer done.Done()
			start.Wait()
			for k := 0; k < c.K && errs[i] == nil; k++ {
				for _, n := range c.Names[i] {
					info, err := arch.GetInfo(n)
					w := want[n]
					if (err != nil) != w.fail || info != w.info {
						gotName := "<nil>"
						if info != nil {
							gotName = info.Name
						}
						wantName := "an error"
						if w.info != nil {
							wantName = "the " + w.info.Name + " table"
						}
						errs[i] = fmt.Errorf("GetInfo(%q), lookup %d of goroutine %d while %d other goroutines look up other names: table %s, error %v; the name means %s", n, k+1, i+1, len(c.Names)-1, gotName, err, wantName)
						return
					}
				}
			}
		}(i)
	}
	start.Done()
	done.Wait()
	for _, err := range errs {
		if err != nil {
			return ev.Result{}, err
		}
	}
	res := ev.Result{Classes: []string{"lookups-from-several-goroutines"}, Sub: len(c.Names) * c.K}
	if len(tables) >= 2 {
		res.NonTrivial = true
		res.Classes = append(res.Classes, "concurrent-lookups-of-different-tables")
	}
	return res, nil
}

func TestC12Concurrent(t *testing.T) {
	ev.Prop(t, "C12", "concurrent", drawC12Conc, checkC12Conc)
}

// ---- C01 / C05: independent policies compiled by several goroutines at once ----

type concCompileCase struct {
	Policies []spec.Policy `json:"policies"` // one per goroutine, of generated (different) architectures
	K        int           `json:"k"`
	Seed     uint64        `json:"seed"`
}

func drawConcCompile(t *rapid.T) concCompileCase {
	c := concCompileCase{K: rapid.IntRange(1, 4).Draw(t, "k"), Seed: rapid.Uint64().Draw(t, "seed")}
	g := rapid.IntRange(2, 8).Draw(t, "goroutines")
	for i := 0; i < g; i++ {
		prof := []gen.Profile{gen.Small, gen.Small, gen.NamesOnly, gen.CondHeavy, gen.Long}[rapid.IntRange(0, 4).Draw(t, "profile")]
		c.Policies = append(c.Policies, gen.Policy(t, drawArch(t), gen.Opts{Profile: prof, MaxInsns: 1500}))
	}
	return c
}

// c05ClosedReturnSet: every value the program can return is the default action, a group action or ERRNO(ENOSYS) (x86_64).
func c05ClosedReturnSet(p *spec.Policy, raw []cbpf.Raw) error {
	allowed := map[uint32]bool{model.Ret(p.Default): true}
	for _, g := range p.Groups {
		allowed[model.Ret(g.Action)] = true
	}
	if p.Arch == "x86_64" {
		allowed[oracle.Const("SECCOMP_RET_ERRNO")|oracle.Const("ENOSYS")] = true
	}
	vals, nonConst := cbpf.Returns(raw)
	if nonConst {
		return fmt.Errorf("program contains a return that is not RET K")
	}
	for _, v := range vals {
		if !allowed[v] {
			return fmt.Errorf("program can return %#x, which is neither the default action, nor a group action, nor ERRNO(ENOSYS) on x86_64", v)
		}
	}
	return nil
}

// checkConcCompile: what a goroutine gets for its own policy while others compile theirs is judged by the property's own
// oracle (C01: the reference decisions for sampled events; C05: verifier and closed return set) whenever it differs from the
// program the same policy compiles to when nothing else runs. (That it is the identical program is C13's statement.)
func checkConcCompile(prop string) func(json.RawMessage) (ev.Result, error) {
	return func(raw json.RawMessage) (ev.Result, error) {
		var c concCompileCase
		if err := json.Unmarshal(raw, &c); err != nil {
			return ev.Result{}, ev.Inconclusivef("bad case: %v", err)
		}
		if len(c.Policies) < 2 || c.K < 1 || c.K > 16 {
			return ev.Result{}, ev.Inconclusivef("ill-formed case")
		}
		type outcome struct {
			insts []bpf.Instruction
			err   error
			pan   any
		}
		n := len(c.Policies)
		want := make([]outcome, n)
		values := make([][]*seccomp.Policy, n)
		archs := map[string]bool{}
		for i := range c.Policies {
			cp, err, pan := compilePolicy(&c.Policies[i])
			if pan != nil {
				return ev.Result{}, ev.Inconclusivef("policy %d panics the compiler even when compiled alone", i)
			}
			if err == nil {
				want[i].insts = cp.insts
				archs[c.Policies[i].Arch] = true
			}
			want[i].err = err
			for k := 0; k < c.K; k++ {
				values[i] = append(values[i], c.Policies[i].ToSeccomp())
			}
		}
		got := make([][]outcome, n)
		var start, done sync.WaitGroup
		start.Add(1)
		for i := 0; i < n; i++ {
			done.Add(1)
			go func(i int) {
				defer done.Done()
				start.Wait()
				for k := 0; k < c.K; k++ {
					var o outcome
					func() {
						defer func() { o.pan = recover() }()
						o.insts, o.err = values[i][k].Assemble()
					}()
					got[i] = append(got[i], o)
				}
			}(i)
		}
		start.Done()
		done.Wait()
		res := ev.Result{Classes: []string{"independent-policies-compiled-concurrently"}, Sub: n * c.K}
		for i := 0; i < n; i++ {
			p := &c.Policies[i]
			for k, o := range got[i] {
				where := fmt.Sprintf("policy %d of %d (%s, %d groups), compiled for the %d. time by its own goroutine while %d other goroutines compile policies of their own", i+1, n, p.Arch, len(p.Groups), k+1, n-1)
				if o.pan != nil {
					return res, fmt.Errorf("%s: Assemble panicked (%v); compiled alone it does not", where, o.pan)
				}
				if (o.err != nil) != (want[i].err != nil) {
					return res, fmt.Errorf("%s: error %v, compiled alone %v", where, o.err, want[i].err)
				}
				if o.err != nil || reflect.DeepEqual(o.insts, want[i].insts) {
					continue
				}
				cp := &compiled{insts: o.insts}
				if err := cp.encode(); err != nil {
					return res, fmt.Errorf("%s: the program does not encode: %v", where, err)
				}
				switch prop {
				case "C05":
					if len(cp.raw) <= cbpf.MaxInsns {
						if err := cbpf.Verify(cp.raw); err != nil {
							return res, fmt.Errorf("%s: the program would be refused by the kernel's verifier: %v", where, err)
						}
					}
					if err := c05ClosedReturnSet(p, cp.raw); err != nil {
						return res, fmt.Errorf("%s: %v", where, err)
					}
				case "C04":
					evs := gen.Events(p, c.Seed, gen.EventOpts{Foreign: true, X32: p.Arch == "x86_64", MaxNrs: 40, Consts: cp.consts})
					if err := runEvents(p, cp, evs, hostOrder(), nil); err != nil {
						return res, fmt.Errorf("%s: %v", where, err)
					}
				default:
					evs := gen.Events(p, c.Seed, gen.EventOpts{Own: true, PerNr: 2, MaxNrs: 80, Consts: cp.consts})
					if err := runEvents(p, cp, evs, hostOrder(), nil); err != nil {
						return res, fmt.Errorf("%s: %v", where, err)
					}
				}
				res.Classes = append(res.Classes, "concurrent-program-differs-from-sequential-but-is-right")
			}
		}
		if len(archs) >= 2 {
			res.NonTrivial = true
			res.Classes = append(res.Classes, "concurrent-compilations-for-different-architectures")
		}
		sizes := map[string]map[int]bool{}
		for i := range c.Policies {
			if want[i].err == nil {
				if sizes[c.Policies[i].Arch] == nil {
					sizes[c.Policies[i].Arch] = map[int]bool{}
				}
				sizes[c.Policies[i].Arch][len(want[i].insts)] = true
			}
		}
		for _, m := range sizes {
			if len(m) >= 2 {
				res.NonTrivial = true
				res.Classes = append(res.Classes, "concurrent-compilations-of-different-sizes-for-one-architecture")
				break
			}
		}
		return res, nil
	}
}

// drawConcCompileOneArch: the goroutines compile policies of different sizes, half of the time all for one architecture
// (state that the compiler keeps per architecture is then shared by all of them) and more often each (k up to 16).
func drawConcCompileOneArch(t *rapid.T) concCompileCase {
	c := concCompileCase{K: rapid.IntRange(4, 16).Draw(t, "k"), Seed: rapid.Uint64().Draw(t, "seed")}
	g := rapid.IntRange(2, 8).Draw(t, "goroutines")
	one := rapid.Bool().Draw(t, "one-architecture")
	a := drawArch(t)
	for i := 0; i < g; i++ {
		prof := []gen.Profile{gen.Small, gen.NamesOnly, gen.NamesOnly, gen.CondHeavy, gen.Long}[rapid.IntRange(0, 4).Draw(t, "profile")]
		if !one && i > 0 {
			a = drawArch(t)
		}
		c.Policies = append(c.Policies, gen.Policy(t, a, gen.Opts{Profile: prof, MaxInsns: 1500}))
	}
	return c
}

func TestC04Concurrent(t *testing.T) {
	ev.Prop(t, "C04", "concurrent", drawConcCompileOneArch, checkConcCompile("C04"))
}

func TestC01Concurrent(t *testing.T) {
	ev.Prop(t, "C01", "concurrent", drawConcCompile, checkConcCompile("C01"))
}

func TestC05Concurrent(t *testing.T) {
	ev.Prop(t, "C05", "concurrent", drawConcCompile, checkConcCompile("C05"))
}
