package props

import (
	"encoding/binary"
	"encoding/json"
	"fmt"
	seccomp "github.com/elastic/go-seccomp-bpf"
	"strings"

	"golang.org/x/net/bpf"
	"pgregory.net/rapid"

	"verif/harness/internal/cbpf"
	"verif/harness/internal/ev"
	"verif/harness/internal/gen"
	"verif/harness/internal/model"
	"verif/harness/internal/oracle"
	"verif/harness/internal/spec"
)

// polCase is the shared case type of the compiler properties: a policy, a seed
// from which the policy-directed event set is expanded, and a few events drawn
// by rapid itself.
type polCase struct {
	Policy spec.Policy  `json:"policy"`
	Seed   uint64       `json:"seed"`
	Extra  []spec.Event `json:"extra,omitempty"`
	// Prev: an architecture name = the same policy value was compiled for that architecture before it is compiled for its
	// own; "edited" = the value held and compiled another policy before; "copy" = the architecture is given by an equal
	// copy of the package's Info value
	Prev string `json:"prev_arch,omitempty"`
	// OpCase != 0: the operation names handed to the compiler are written in another letter case (seeded by this
	// value); the compiler may refuse them, but if it accepts them they must mean the documented operation
	OpCase uint64 `json:"op_case,omitempty"`
	// Foreign: a name that is a syscall of another architecture but not of the policy's is added to one group of the
	// policy handed to the compiler. The compiler should refuse it (C07); if it accepts the policy, the name lists no
	// syscall number of this architecture and every event is decided as if it were absent.
	Foreign string `json:"foreign,omitempty"`
}

type compiled struct {
	insts  []bpf.Instruction
	raw    []cbpf.Raw
	consts []uint32 // constants of conditional jumps
}

// compilePolicy calls Policy.Assemble, recovering panics.
func compilePolicy(p *spec.Policy) (c *compiled, err error, panicked any) {
	defer func() {
		if x := recover(); x != nil {
			panicked = x
		}
	}()
	return compilePolicyAfter(p, "")
}

// compilePolicyAfter: if prev names an architecture, the policy value is first compiled for that one (result
// ignored) and then for its own.
func compilePolicyAfter(p *spec.Policy, prev string) (c *compiled, err error, panicked any) {
	defer func() {
		if x := recover(); x != nil {
			panicked = x
		}
	}()
	sp := p.ToSeccomp()
	switch {
	case prev == "edited":
		// the value compiled a different policy before (same architecture: other default action, groups reversed, first
		// group without its names) and was then overwritten field by field with this one
		v := *p
		v.Default = oracle.ActionList()[(len(p.Groups)+3)%7]
		if v.Default == p.Default {
			v.Default = oracle.ActionList()[(len(p.Groups)+4)%7]
		}
		v.Groups = nil
		for i := len(p.Groups) - 1; i >= 0; i-- {
			g := p.Groups[i]
			if i == 0 && len(g.Names) > 1 {
				g.Names = g.Names[:1]
			}
			v.Groups = append(v.Groups, g)
		}
		old := v.ToSeccomp()
		old.Assemble()
		old.DefaultAction, old.Syscalls = sp.DefaultAction, sp.Syscalls
		sp = old
	case prev == "edited-conds":
		// the same value (same pointer, same slices) compiled a previous version in which every condition had another
		// argument index, operation and operand; then the entries were put back in place
		ops := []seccomp.Operation{seccomp.Equal, seccomp.NotEqual, seccomp.GreaterThan, seccomp.LessThan, seccomp.BitsSet, seccomp.BitsNotSet, seccomp.GreaterOrEqual, seccomp.LessOrEqual}
		type saved struct {
			c *seccomp.Condition
			v seccomp.Condition
		}
		var keep []saved
		for gi := range sp.Syscalls {
			for ni := range sp.Syscalls[gi].NamesWithCondtions {
				cs := sp.Syscalls[gi].NamesWithCondtions[ni].Conditions
				for ci := range cs {
					keep = append(keep, saved{&cs[ci], cs[ci]})
					cs[ci].Argument = (cs[ci].Argument + 1) % 6
					cs[ci].Value = cs[ci].Value<<32 | cs[ci].Value>>32 ^ 1
					cs[ci].Operation = ops[(len(keep)+int(cs[ci].Value&7))%len(ops)]
					if cs[ci].Operation == keep[len(keep)-1].v.Operation {
						cs[ci].Operation = ops[(len(keep)+int(cs[ci].Value&7)+1)%len(ops)]
					}
				}
			}
		}
		// ... and every plain name list was rotated and began with a syscall the policy does not mention at all
		used := map[string]bool{}
		for _, g := range p.Groups {
			for _, n := range g.Names {
				used[n] = true
			}
			for _, ce := range g.Conds {
				used[ce.Name] = true
			}
		}
		var free []string
		for _, n := range gen.Universe(p.Arch) {
			if !used[n] {
				free = append(free, n)
			}
		}
		names := make([][]string, len(sp.Syscalls))
		for gi := range sp.Syscalls {
			n := sp.Syscalls[gi].Names
			names[gi] = append([]string(nil), n...)
			if len(n) > 1 {
				copy(n, names[gi][1:])
				n[len(n)-1] = names[gi][0]
			}
			if len(n) > 0 && gi < len(free) {
				n[0] = free[gi]
			}
		}
		sp.Assemble()
		for _, k := range keep {
			*k.c = k.v
		}
		for gi := range sp.Syscalls {
			copy(sp.Syscalls[gi].Names, names[gi])
		}
	case prev == "other-order":
		// the same value was compiled before while the other byte order was in effect
		cur := seccomp.VerifByteOrder()
		var other binary.ByteOrder = binary.BigEndian
		if cur == binary.ByteOrder(binary.BigEndian) {
			other = binary.LittleEndian
		}
		seccomp.VerifSetByteOrder(other)
		sp.Assemble()
		seccomp.VerifSetByteOrder(cur)
	case prev == "unset":
		// the architecture is left to the library, as users of the public API do (only possible for this machine's own)
		if p.Arch == hostArchName() {
			q := *p
			q.Arch = ""
			sp = q.ToSeccomp()
		}
	case prev == "shared-array":
		// all Names of all groups live in one array, in another order than the groups, every window with capacity up to
		// the end of the array: what one group appends "behind its end" lands in another group's names
		total := 0
		for _, g := range sp.Syscalls {
			total += len(g.Names)
		}
		arr := make([]string, 0, total+4)
		order := make([]int, len(sp.Syscalls))
		for i := range order {
			order[i] = i
		}
		r := gen.NewRng(uint64(total)*977 + uint64(len(order)))
		for i := len(order) - 1; i > 0; i-- {
			j := r.Intn(i + 1)
			order[i], order[j] = order[j], order[i]
		}
		for _, gi := range order {
			g := &sp.Syscalls[gi]
			if g.Names == nil {
				continue
			}
			off := len(arr)
			arr = append(arr, g.Names...)
			g.Names = arr[off:len(arr)]
		}
	case prev == "copy":
		// the architecture is described by an equal private copy of the package's Info value
		info := *spec.ArchInfo(p.Arch)
		seccomp.VerifSetArch(sp, &info)
	case prev != "" && spec.ArchInfo(prev) != nil:
		seccomp.VerifSetArch(sp, spec.ArchInfo(prev))
		sp.Assemble()
		seccomp.VerifSetArch(sp, spec.ArchInfo(p.Arch))
	}
	insts, err := sp.Assemble()
	if err != nil {
		return nil, err, nil
	}
	if prev == "then-other" {
		// the program is kept by the caller while the library goes on to compile other policies (a smaller and a larger
		// one): what was returned belongs to the caller and must not change under its hands
		small := spec.Policy{Arch: p.Arch, Default: oracle.ActionList()[(len(insts)+1)%7], Groups: []spec.Group{{Action: oracle.ActionList()[len(insts)%7], Names: gen.Subset(gen.Universe(p.Arch), uint64(len(insts)), 3)}}}
		small.ToSeccomp().Assemble()
		large := small
		large.Groups = []spec.Group{{Action: small.Groups[0].Action, Names: gen.Subset(gen.Universe(p.Arch), uint64(len(insts))+1, len(insts)+40)}}
		large.ToSeccomp().Assemble()
		small.ToSeccomp().Assemble()
	}
	c = &compiled{insts: insts}
	return c, nil, nil
}

func (c *compiled) encode() error {
	raw, err := toRaw(c.insts)
	if err != nil {
		return err
	}
	c.raw = raw
	seen := map[uint32]bool{}
	for _, in := range raw {
		if in.IsCondJump() && !seen[in.K] {
			seen[in.K] = true
			c.consts = append(c.consts, in.K)
		}
	}
	return nil
}

// hostOrder: the byte order in which events are laid out when no override is active. It is the machine's own
// order, determined independently of the package (a wrong detection inside the package must show).
func hostOrder() binary.ByteOrder {
	if binary.NativeEndian.Uint16([]byte{1, 0}) == 1 {
		return binary.LittleEndian
	}
	return binary.BigEndian
}

func fmtEvent(e spec.Event) string {
	return fmt.Sprintf("{arch=%#x nr=%d(%#x) args=[%#x %#x %#x %#x %#x %#x]}", e.Arch, e.Nr, e.Nr, e.Args[0], e.Args[1], e.Args[2], e.Args[3], e.Args[4], e.Args[5])
}

func drawExtraEvents(t *rapid.T, p *spec.Policy, n int) []spec.Event {
	var out []spec.Event
	own := oracle.ArchID(p.Arch)
	k := rapid.IntRange(0, n).Draw(t, "nExtra")
	for i := 0; i < k; i++ {
		e := spec.Event{Arch: own}
		switch rapid.IntRange(0, 3).Draw(t, "nrClass") {
		case 0:
			e.Nr = uint32(rapid.IntRange(0, 600).Draw(t, "nr"))
		case 1:
			names := gen.Universe(p.Arch)
			e.Nr = uint32(oracle.Table(p.Arch)[names[rapid.IntRange(0, len(names)-1).Draw(t, "nrName")]])
		default:
			e.Nr = rapid.Uint32().Draw(t, "nrAny")
		}
		for a := range e.Args {
			if rapid.Bool().Draw(t, "argB") {
				e.Args[a] = gen.Boundary[rapid.IntRange(0, len(gen.Boundary)-1).Draw(t, "argBv")]
			} else {
				e.Args[a] = rapid.Uint64().Draw(t, "arg")
			}
		}
		out = append(out, e)
	}
	return out
}

// evalStats is what one policy evaluation observed.
type evalStats struct {
	events        int
	nontrivial    int
	classes       map[string]bool
	insns         int
	hasArgLoads   bool
	anyGroupEmpty bool
}

func (s *evalStats) class(c string) { s.classes[c] = true }

func (s *evalStats) list() []string {
	var out []string
	for c := range s.classes {
		out = append(out, c)
	}
	return out
}

func parsePolCase(raw json.RawMessage) (*polCase, error) {
	var c polCase
	if err := json.Unmarshal(raw, &c); err != nil {
		return nil, ev.Inconclusivef("bad case: %v", err)
	}
	for _, g := range c.Policy.Groups {
		for _, n := range g.Names {
			if _, ok := model.Number(c.Policy.Arch, n); !ok {
				return nil, ev.Inconclusivef("name %q not in the oracle table", n)
			}
		}
	}
	return &c, nil
}

// runEvents executes the events on the compiled program and compares with the
// reference decision. classify is called for every agreeing event.
func runEvents(p *spec.Policy, c *compiled, evs []spec.Event, bo binary.ByteOrder, classify func(e spec.Event, want uint32, info model.Info)) error {
	for _, e := range evs {
		want, info, err := model.Decide(p, e)
		if err != nil {
			return ev.Inconclusivef("model: %v", err)
		}
		w := e.Words(bo)
		got, err := cbpf.Run(c.raw, &w, nil)
		if err != nil {
			return fmt.Errorf("compiled program (%d instructions) fails on event %s: %v", len(c.raw), fmtEvent(e), err)
		}
		if got != want {
			why := "default action"
			switch {
			case info.Foreign:
				why = "default action (foreign architecture)"
			case info.X32:
				why = "ERRNO(ENOSYS) (x32 bit)"
			case info.Group >= 0:
				why = fmt.Sprintf("action of group %d", info.Group)
			}
			return fmt.Errorf("event %s: filter returns %#x, policy demands %#x = %s [program %d instructions, %d groups, nr listed by %d group(s), %d unsatisfied conditional entr(ies) before the decision]",
				fmtEvent(e), got, want, why, len(c.raw), len(p.Groups), info.ListedBy, info.FellThrough)
		}
		if classify != nil {
			classify(e, want, info)
		}
	}
	return nil
}

func policyShape(p *spec.Policy, c *compiled, s *evalStats) {
	s.insns = len(c.raw)
	s.class("arch:" + p.Arch)
	if len(c.raw) > 255 {
		s.class("program>255")
	}
	if len(c.raw) > 1000 {
		s.class("program>1000")
	}
	for _, in := range c.raw {
		if off, ok := in.IsLoad(); ok && off >= 16 {
			s.hasArgLoads = true
		}
	}
	if s.hasArgLoads {
		s.class("has-argument-loads")
	}
	names := 0
	for _, g := range p.Groups {
		names += len(g.Names)
		if len(g.Names) == 0 && len(g.Conds) == 0 {
			s.anyGroupEmpty = true
		}
		if g.Action == oracle.Const("SECCOMP_RET_ERRNO") {
			s.class("errno-action")
		}
		if oracle.ActionName(g.Action) == "" {
			s.class("group-action-with-data-bits")
		}
		if len(g.Names) >= len(gen.Universe(p.Arch)) {
			s.class("whole-table-group")
		}
	}
	if s.anyGroupEmpty {
		s.class("has-empty-group")
	}
	if len(p.Groups) >= 2 {
		s.class("groups>=2")
	}
	if len(p.Groups) >= 4 {
		s.class("groups>=4")
	}
	if len(p.Groups) >= 64 {
		s.class("groups>=64")
	}
	if p.Default == oracle.Const("SECCOMP_RET_ERRNO") {
		s.class("errno-default")
	}
}

// mangleOps returns a copy of the policy in which about half of the operation names are written in lower, upper or
// mixed case.
func mangleOps(p *spec.Policy, seed uint64) *spec.Policy {
	q := *p
	q.Groups = nil
	k := uint64(0)
	for _, g := range p.Groups {
		g2 := g
		g2.Conds = nil
		for _, ce := range g.Conds {
			ce2 := spec.CondEntry{Name: ce.Name}
			for _, c := range ce.Conds {
				k++
				switch gen.Mix(seed, k) % 6 {
				case 0:
					c.Op = strings.ToLower(c.Op)
				case 1:
					c.Op = strings.ToUpper(c.Op)
				case 2:
					c.Op = strings.ToLower(c.Op[:1]) + c.Op[1:]
				}
				ce2.Conds = append(ce2.Conds, c)
			}
			g2.Conds = append(g2.Conds, ce2)
		}
		q.Groups = append(q.Groups, g2)
	}
	return &q
}
