package props

import (
	"encoding/binary"
	"encoding/json"
	"fmt"
	"testing"

	seccomp "github.com/elastic/go-seccomp-bpf"
	"pgregory.net/rapid"

	"verif/harness/internal/ev"
	"verif/harness/internal/gen"
	"verif/harness/internal/model"
	"verif/harness/internal/oracle"
	"verif/harness/internal/spec"
)

// C02 — argument conditions are exact unsigned 64-bit comparisons, on both
// byte orders of seccomp_data.

type c02Case struct {
	Op    string    `json:"op"`
	Arg   uint32    `json:"arg"`
	Val   uint64    `json:"val"`
	Act   uint64    `json:"actual"`
	Noise [6]uint64 `json:"noise"` // values of the other five arguments (index Arg is replaced by Act)
	// Order: "native" = the byte order the package detected itself (no override),
	// "little"/"big" = override hook, seccomp_data encoded accordingly.
	Order string `json:"order"`
	Arch  string `json:"arch"`
	// Alt: further single-condition entries for the same syscall and argument (alternatives, OR):
	// the entry set matches iff any of the conditions holds.
	Alt []c02Alt `json:"alt,omitempty"`
	// Before / Between: single-condition entries for OTHER syscalls placed in the same group before the entry under
	// test and between it and its alternatives; Plain: other syscalls listed without conditions in the group. None of
	// them speaks about the event's syscall, so the expected decision is unchanged.
	Before  []c02Ctx `json:"before,omitempty"`
	Between []c02Ctx `json:"between,omitempty"`
	Plain   []string `json:"plain,omitempty"`
	// Layout of the groups around the entry under test:
	//  "second-group": a first group (other action) holds a conditional entry for the same syscall whose condition does
	//     not hold for the event, as its last entry; the entry under test is in the second group.
	//  "default-action-first": the group of the entry under test has the policy's default action, and a second group
	//     (other action) lists the syscall without conditions: relation holds => default action value, else the second
	//     group's action.
	Layout string `json:"layout,omitempty"`
	// Prev: what the Policy value went through before this compilation ("edited-conds": it compiled other conditions
	// in the same entries; "other-order": it was compiled under the other byte order; "edited": other groups).
	Prev string `json:"prev,omitempty"`
}

type c02Ctx struct {
	Name string `json:"name"`
	Arg  uint32 `json:"arg"`
	Op   string `json:"op"`
	Val  uint64 `json:"val"`
}

// c02Known: the name is in the vendored table and in the package's table of the architecture.
func c02Known(arch, name string) bool {
	for _, n := range gen.Universe(arch) {
		if n == name {
			return true
		}
	}
	return false
}

var c02OtherNames = []string{"getpid", "getuid", "gettid", "getgid", "geteuid", "getegid", "getpgrp", "sync", "umask", "alarm"}

type c02Alt struct {
	Op  string `json:"op"`
	Val uint64 `json:"val"`
}

// seccomp_data of a "native" event is laid out in the byte order of the machine the kernel (and this test) runs
// on, determined independently of the package: see hostOrder.
var nativeOrder = seccomp.VerifByteOrder() // what the package detected itself, captured before any override

func orderOf(mode string) binary.ByteOrder {
	switch mode {
	case "little":
		return binary.LittleEndian
	case "big":
		return binary.BigEndian
	}
	return hostOrder()
}

// relation class of one half: 0 '<', 1 '=', 2 '>'
func relClass(a, v uint32) int {
	switch {
	case a < v:
		return 0
	case a == v:
		return 1
	}
	return 2
}

const (
	c02Matched = 0x7ffc0000 // log
	c02Default = 0x7fff0000 // allow
	c02Syscall = "getppid"
)

func checkC02(raw json.RawMessage) (ev.Result, error) {
	var c c02Case
	if err := json.Unmarshal(raw, &c); err != nil {
		return ev.Result{}, ev.Inconclusivef("bad case: %v", err)
	}
	if c.Arch == "" {
		c.Arch = "x86_64"
	}
	bo := orderOf(c.Order)
	if c.Order != "native" {
		old := seccomp.VerifSetByteOrder(bo)
		defer seccomp.VerifSetByteOrder(old)
	} else if seccomp.VerifByteOrder() != nativeOrder {
		return ev.Result{}, ev.Inconclusivef("byte order override leaked between cases")
	}
	p := spec.Policy{Arch: c.Arch, Default: c02Default, Groups: []spec.Group{{Action: c02Matched}}}
	g := &p.Groups[0]
	ctx := func(list []c02Ctx) error {
		for _, x := range list {
			if x.Name == c02Syscall {
				return ev.Inconclusivef("context entry for the syscall under test")
			}
			if !c02Known(c.Arch, x.Name) {
				continue // not a syscall of this architecture
			}
			g.Conds = append(g.Conds, spec.CondEntry{Name: x.Name, Conds: []spec.Cond{{Arg: x.Arg, Op: x.Op, Val: x.Val}}})
		}
		return nil
	}
	if err := ctx(c.Before); err != nil {
		return ev.Result{}, err
	}
	g.Conds = append(g.Conds, spec.CondEntry{Name: c02Syscall, Conds: []spec.Cond{{Arg: c.Arg, Op: c.Op, Val: c.Val}}})
	for i, a := range c.Alt {
		if i < len(c.Between) {
			if err := ctx(c.Between[i : i+1]); err != nil {
				return ev.Result{}, err
			}
		}
		g.Conds = append(g.Conds, spec.CondEntry{Name: c02Syscall, Conds: []spec.Cond{{Arg: c.Arg, Op: a.Op, Val: a.Val}}})
	}
	if len(c.Between) > len(c.Alt) {
		if err := ctx(c.Between[len(c.Alt):]); err != nil {
			return ev.Result{}, err
		}
	}
	for _, n := range c.Plain {
		used := n == c02Syscall
		for _, ce := range g.Conds {
			used = used || ce.Name == n
		}
		for _, m := range g.Names {
			used = used || m == n
		}
		if c02Known(c.Arch, n) && !used {
			g.Names = append(g.Names, n)
		}
	}
	matchedRet, otherRet := uint32(c02Matched), uint32(c02Default)
	switch c.Layout {
	case "second-group":
		// a condition on another argument that the event does not satisfy
		oa := (c.Arg + 1) % 6
		first := spec.Group{Action: oracle.Const("SECCOMP_RET_TRAP"), Names: []string{"getpid"},
			Conds: []spec.CondEntry{{Name: "getuid", Conds: []spec.Cond{{Arg: 0, Op: "Equal", Val: 1}}}, {Name: c02Syscall, Conds: []spec.Cond{{Arg: oa, Op: "Equal", Val: c.Noise[oa] ^ 1}}}}}
		if !c02Known(c.Arch, "getpid") || !c02Known(c.Arch, "getuid") {
			first.Names, first.Conds = nil, first.Conds[1:]
		}
		p.Groups = append([]spec.Group{first}, p.Groups...)
	case "default-action-first":
		p.Groups[0].Action = c02Default
		p.Groups = append(p.Groups, spec.Group{Action: oracle.Const("SECCOMP_RET_TRAP"), Names: []string{c02Syscall}})
		matchedRet, otherRet = c02Default, oracle.Const("SECCOMP_RET_TRAP")
	case "":
	default:
		return ev.Result{}, ev.Inconclusivef("unknown layout %q", c.Layout)
	}
	switch c.Prev {
	case "", "edited-conds", "other-order", "edited":
	default:
		return ev.Result{}, ev.Inconclusivef("unknown history %q", c.Prev)
	}
	cp, cerr, pan := compilePolicyAfter(&p, c.Prev)
	if pan != nil {
		return ev.Result{}, fmt.Errorf("Assemble panicked: %v", pan)
	}
	if cerr != nil {
		return ev.Result{}, fmt.Errorf("single-condition policy rejected: %v", cerr)
	}
	if err := cp.encode(); err != nil {
		return ev.Result{}, fmt.Errorf("program does not encode: %v", err)
	}
	nr, _ := model.Number(c.Arch, c02Syscall)
	e := spec.Event{Arch: oracle.ArchID(c.Arch), Nr: nr, Args: c.Noise}
	e.Args[c.Arg] = c.Act
	holds, err := model.EvalCond(c.Op, c.Act, c.Val)
	if err != nil {
		return ev.Result{}, ev.Inconclusivef("%v", err)
	}
	for _, a := range c.Alt {
		h, err := model.EvalCond(a.Op, c.Act, a.Val)
		if err != nil {
			return ev.Result{}, ev.Inconclusivef("%v", err)
		}
		holds = holds || h
	}
	want := otherRet
	if holds {
		want = matchedRet
	}
	w := e.Words(bo)
	got, err := runRaw(cp, &w)
	if err != nil {
		return ev.Result{}, fmt.Errorf("program fails on %s: %v", fmtEvent(e), err)
	}
	if got != want {
		return ev.Result{}, fmt.Errorf("%s(arg%d, %#x)%s on actual %#x (byte order %s/%s): relation is %v but filter returns %#x (want %#x); other arguments %#x",
			c.Op, c.Arg, c.Val, altText(c.Alt), c.Act, c.Order, bo, holds, got, want, e.Args)
	}
	ah, al, vh, vl := uint32(c.Act>>32), uint32(c.Act), uint32(c.Val>>32), uint32(c.Val)
	res := ev.Result{Classes: []string{"op:" + c.Op, fmt.Sprintf("arg:%d", c.Arg), "order:" + c.Order,
		fmt.Sprintf("%s/arg%d/%s", c.Op, c.Arg, c.Order)}}
	switch c.Op {
	case "BitsSet", "BitsNotSet":
		hiOv, loOv := ah&vh != 0, al&vl != 0
		if hiOv != loOv {
			res.NonTrivial = true
			res.Classes = append(res.Classes, "bits-overlap-in-exactly-one-half")
		}
	default:
		if c.Act != c.Val && relClass(ah, vh) != relClass(al, vl) {
			res.NonTrivial = true
			res.Classes = append(res.Classes, "halves-in-different-relation-classes")
		}
	}
	if len(c.Alt) > 0 {
		res.Classes = append(res.Classes, "alternative-entries-for-the-same-argument")
	}
	if c.Layout != "" {
		res.Classes = append(res.Classes, "layout:"+c.Layout)
	}
	if c.Prev != "" {
		res.Classes = append(res.Classes, "value-compiled-before:"+c.Prev)
	}
	if len(c.Before) > 0 || len(c.Between) > 0 || len(c.Plain) > 0 {
		res.Classes = append(res.Classes, "entry-among-entries-for-other-syscalls")
	}
	if len(c.Between) > 0 && len(c.Alt) > 0 {
		res.Classes = append(res.Classes, "alternatives-not-adjacent")
	}
	if holds {
		res.Classes = append(res.Classes, "relation-holds")
	} else {
		res.Classes = append(res.Classes, "relation-fails")
	}
	return res, nil
}

var c02Halves = []uint32{0, 1, 0x7fffffff, 0x80000000, 0xfffffffe, 0xffffffff}

// TestC02Grid enumerates the boundary grid completely: hi and lo halves of
// operand and actual value over 6 fixed values + 1 seeded value, x 8
// operations x 6 argument positions x 3 byte-order modes.
func TestC02Grid(t *testing.T) {
	ev.Register("C02", "grid", checkC02)
	seed := shardSeed()
	halves := append(append([]uint32(nil), c02Halves...), uint32(gen.Mix(seed, 77)))
	var vals []uint64
	for _, h := range halves {
		for _, l := range halves {
			vals = append(vals, uint64(h)<<32|uint64(l))
		}
	}
	n := 0
	nShards, idx := shardInfo()
	i := 0
	for _, order := range []string{"native", "little", "big"} {
		for _, op := range spec.Ops {
			for arg := uint32(0); arg < 6; arg++ {
				i++
				if i%nShards != idx {
					continue
				}
				// noise: the operand itself and near misses in the other slots
				for _, v := range vals {
					for _, a := range vals {
						c := c02Case{Op: op, Arg: arg, Val: v, Act: a, Order: order, Arch: "x86_64"}
						for k := range c.Noise {
							switch k % 3 {
							case 0:
								c.Noise[k] = v
							case 1:
								c.Noise[k] = ^a
							default:
								c.Noise[k] = a<<32 | a>>32
							}
						}
						if !ev.CheckOne(t, "C02", "grid", c, checkC02) {
							return
						}
						n++
					}
				}
			}
		}
	}
	ev.Exhaustive("C02", "boundary grid 49x49 (operand,actual) x 8 ops x 6 args x 3 byte-order modes", n)
}

func drawC02(t *rapid.T) c02Case {
	c := c02Case{
		Op:    spec.Ops[rapid.IntRange(0, 7).Draw(t, "op")],
		Arg:   uint32(rapid.IntRange(0, 5).Draw(t, "arg")),
		Order: []string{"native", "little", "big"}[rapid.IntRange(0, 2).Draw(t, "order")],
		Arch:  drawArch(t),
	}
	u64 := func(label string) uint64 {
		switch rapid.IntRange(0, 3).Draw(t, label+"Class") {
		case 0:
			return gen.Boundary[rapid.IntRange(0, len(gen.Boundary)-1).Draw(t, label+"B")]
		case 1:
			return uint64(rapid.Uint32().Draw(t, label+"Hi"))<<32 | uint64(c02Halves[rapid.IntRange(0, 5).Draw(t, label+"Lo")])
		case 2:
			return uint64(c02Halves[rapid.IntRange(0, 5).Draw(t, label+"Hi")])<<32 | uint64(rapid.Uint32().Draw(t, label+"Lo"))
		}
		return rapid.Uint64().Draw(t, label)
	}
	c.Val = u64("val")
	switch rapid.IntRange(0, 7).Draw(t, "actClass") {
	case 0:
		c.Act = c.Val
	case 1:
		c.Act = c.Val + 1
	case 2:
		c.Act = c.Val - 1
	case 3:
		c.Act = c.Val ^ (1 << 32)
	case 4:
		c.Act = c.Val<<32 | c.Val>>32
	case 5:
		c.Act = c.Val ^ (1 << uint(rapid.IntRange(0, 63).Draw(t, "bit")))
	default:
		c.Act = u64("act")
	}
	if rapid.IntRange(0, 3).Draw(t, "withAlt") == 0 {
		// alternatives: the same argument compared with further operands that share words with the first one
		n := rapid.IntRange(1, 3).Draw(t, "nAlt")
		for i := 0; i < n; i++ {
			a := c02Alt{Op: c.Op, Val: c.Val}
			if rapid.IntRange(0, 3).Draw(t, "altOtherOp") == 0 {
				a.Op = spec.Ops[rapid.IntRange(0, 7).Draw(t, "altOp")]
			}
			switch rapid.IntRange(0, 3).Draw(t, "altVal") {
			case 0:
				a.Val = c.Val&^0xffffffff | uint64(rapid.IntRange(0, 9).Draw(t, "altLo")) // same high word, small low word
			case 1:
				a.Val = c.Val + uint64(rapid.IntRange(1, 3).Draw(t, "altDelta"))
			case 2:
				a.Val = uint64(rapid.IntRange(0, 9).Draw(t, "altSmall"))
			default:
				a.Val = u64("altAny")
			}
			c.Alt = append(c.Alt, a)
		}
		// an actual value whose HIGH word equals the LOW word of one of the operands (and the other way round)
		if rapid.Bool().Draw(t, "altCross") {
			pick := c.Alt[rapid.IntRange(0, len(c.Alt)-1).Draw(t, "altPick")].Val
			c.Act = (pick&0xffffffff)<<32 | uint64(rapid.IntRange(0, 9).Draw(t, "actLo"))
		}
	}
	if rapid.IntRange(0, 2).Draw(t, "withCtx") == 0 {
		// the entry's place in its group: entries for other syscalls before it, between it and its alternatives, and
		// other syscalls listed plainly; their operands reuse the operand under test
		drawCtx := func(label string, max int) []c02Ctx {
			var out []c02Ctx
			n := rapid.IntRange(0, max).Draw(t, label+"N")
			for i := 0; i < n; i++ {
				x := c02Ctx{Name: c02OtherNames[rapid.IntRange(0, len(c02OtherNames)-1).Draw(t, label+"Name")],
					Arg: uint32(rapid.IntRange(0, 5).Draw(t, label+"Arg")), Op: spec.Ops[rapid.IntRange(0, 7).Draw(t, label+"Op")], Val: c.Val}
				if rapid.Bool().Draw(t, label+"OtherVal") {
					x.Val = u64(label + "Val")
				}
				out = append(out, x)
			}
			return out
		}
		c.Before = drawCtx("before", 9)
		c.Between = drawCtx("between", 4)
		np := rapid.IntRange(0, 3).Draw(t, "nPlain")
		for i := 0; i < np; i++ {
			c.Plain = append(c.Plain, c02OtherNames[rapid.IntRange(0, len(c02OtherNames)-1).Draw(t, "plainName")])
		}
	}
	switch rapid.IntRange(0, 7).Draw(t, "layout") {
	case 0:
		c.Layout = "second-group"
	case 1:
		c.Layout = "default-action-first"
	}
	for k := range c.Noise {
		switch rapid.IntRange(0, 2).Draw(t, "noiseClass") {
		case 0:
			c.Noise[k] = c.Val
		case 1:
			c.Noise[k] = ^c.Act
		default:
			c.Noise[k] = rapid.Uint64().Draw(t, "noise")
		}
	}
	switch rapid.IntRange(0, 9).Draw(t, "history") {
	case 0, 1:
		c.Prev = "edited-conds"
	case 2:
		c.Prev = "other-order"
	case 3:
		c.Prev = "edited"
	}
	return c
}

func TestC02Random(t *testing.T) {
	ev.Prop(t, "C02", "random", drawC02, checkC02)
}

func altText(alt []c02Alt) string {
	var out string
	for _, a := range alt {
		out += fmt.Sprintf(" OR %s(%#x)", a.Op, a.Val)
	}
	return out
}
