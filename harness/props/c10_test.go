package props

import (
	"encoding/json"
	"fmt"
	"strings"
	"testing"

	"pgregory.net/rapid"

	"verif/harness/internal/ev"
	"verif/harness/internal/kchild"
	"verif/harness/internal/kjob"
	"verif/harness/internal/model"
	"verif/harness/internal/spec"
)

// C10 — thread-sync covers every thread under every schedule.

type c10Case struct {
	States     []string `json:"states"`
	GOMAXPROCS int      `json:"gomaxprocs"`
	DelayUs    int      `json:"delay_us"`
	Flag       uint32   `json:"flag"`
	NNP        bool     `json:"nnp"`
	SpawnAfter int      `json:"spawn_after"`
	Strace     bool     `json:"strace"`
	// Divergent: another thread loads a filter of its own (no thread-sync) first, so that the kernel refuses the synchronisation.
	Divergent bool `json:"divergent"`
	// PriorKind: which earlier load (Divergent): other-thread-different (default), other-thread-same (same policy:
	// still a different filter object for the kernel), same-thread-same (the loader itself loaded the same policy
	// without thread-sync before: the kernel accepts the later synchronisation).
	PriorKind string `json:"prior_kind,omitempty"`
	// (PriorKind same-thread-tsync: the loader itself loaded another policy WITH thread-sync before; a later load
	// without thread-sync must then concern the loader only, and its flag word must not inherit the earlier one.)
	// LogGroup: the policy also carries a group with the log action (the flag word must not depend on the policy).
	LogGroup bool `json:"log_group,omitempty"`
	// Uid: 0 or 65534 (an unprivileged load without no_new_privs is refused by the kernel: nothing is claimed then, but
	// it must not turn into a successful load with another flag word)
	Uid int `json:"uid,omitempty"`
	// Uname26: the process reports a 2.6 kernel release (UNAME26 personality)
	Uname26 bool `json:"uname26,omitempty"`
	// EinvalLog: in the whole process seccomp(SET_MODE_FILTER) with the log flag is answered EINVAL (old kernel,
	// sandbox). A load that carries the flag cannot succeed then - in particular not with another flag word.
	EinvalLog bool `json:"einval_log,omitempty"`
	// Unlocked: the load is called from an ordinary goroutine (not one that holds its thread) while prctl(2) is slowed
	// down by strace (inject=prctl:delay_exit): the runtime takes the processor away during the call, and a goroutine
	// that does not hold its thread continues on another one. Without thread-sync exactly one thread may end up with the
	// filter, and no other thread may have been given no_new_privs.
	Unlocked bool `json:"unlocked,omitempty"`
	// AllowOnly: the policy allows everything (default allow, one group with action allow): a valid filter like any other;
	// whether a thread carries it is read from its Seccomp mode, the probes cannot tell
	AllowOnly bool `json:"allow_only,omitempty"`
	// HideSysctl: the process cannot see /proc/sys/kernel/seccomp (masked /proc/sys of a container)
	HideSysctl bool `json:"hide_sysctl,omitempty"`
	// PriorRefused (root, plain plans): earlier in the same process a load with thread-sync was refused by the kernel with
	// EINVAL (a valid policy that compiles to more than 4096 instructions). What an earlier call was told is no input
	// of this one.
	PriorRefused bool `json:"prior_refused,omitempty"`
	// GOARCH: build of the child ("" = amd64, 386)
	GOARCH string `json:"goarch,omitempty"`
	// EnosysFault: seccomp(2) fails with ENOSYS in the whole process (outer sandbox / old kernel).
	EnosysFault bool `json:"enosys_fault"`
}

var c10States = []string{"spin", "nanosleep", "read", "futex", "spawner"}

func drawC10(t *rapid.T) c10Case {
	c := c10Case{
		GOMAXPROCS: []int{1, 2, 4, 16}[rapid.IntRange(0, 3).Draw(t, "gomaxprocs")],
		DelayUs:    []int{0, 0, 50, 500, 3000}[rapid.IntRange(0, 4).Draw(t, "delay")],
		Flag:       uint32(rapid.IntRange(0, 3).Draw(t, "flag")),
		NNP:        rapid.Bool().Draw(t, "nnp"),
		SpawnAfter: rapid.IntRange(0, 3).Draw(t, "spawnAfter"),
		Strace:     rapid.IntRange(0, 9).Draw(t, "strace") == 0,
	}
	switch rapid.IntRange(0, 8).Draw(t, "fault") {
	case 0, 8:
		c.Divergent, c.Strace = true, false
		c.PriorKind = []string{"other-thread-different", "other-thread-same", "same-thread-same", "same-thread-tsync", "same-thread-tsync"}[rapid.IntRange(0, 4).Draw(t, "priorKind")]
	case 1:
		c.EnosysFault, c.Strace = true, false
	}
	c.LogGroup = rapid.IntRange(0, 3).Draw(t, "logGroup") == 0
	if rapid.IntRange(0, 3).Draw(t, "unprivileged") == 0 {
		c.Uid, c.Strace = 65534, false
	}
	c.Uname26 = rapid.IntRange(0, 4).Draw(t, "uname26") == 0
	if !c.Divergent && !c.EnosysFault && rapid.IntRange(0, 5).Draw(t, "einvalLog") == 0 {
		c.EinvalLog, c.Strace = true, false
	}
	if rapid.IntRange(0, 3).Draw(t, "abi") == 0 {
		c.GOARCH, c.Strace = "386", false
	}
	if !c.Divergent && !c.EnosysFault && !c.EinvalLog && c.Uid == 0 && c.GOARCH == "" && rapid.IntRange(0, 5).Draw(t, "unlocked") == 0 {
		c.Unlocked, c.Strace, c.NNP = true, false, true
		c.GOMAXPROCS = []int{1, 1, 2}[rapid.IntRange(0, 2).Draw(t, "unlockedProcs")]
	}
	plain := !c.Divergent && !c.EnosysFault && !c.EinvalLog && !c.Unlocked
	c.PriorRefused = plain && c.Uid == 0 && !c.Strace && rapid.IntRange(0, 5).Draw(t, "priorRefused") == 0
	c.AllowOnly = plain && !c.LogGroup && rapid.IntRange(0, 5).Draw(t, "allowOnly") == 0
	c.HideSysctl = plain && !c.Strace && c.Uid == 0 && rapid.IntRange(0, 5).Draw(t, "hideSysctl") == 0
	var n int
	switch k := rapid.IntRange(0, 9).Draw(t, "nClass"); {
	case k < 4:
		n = rapid.IntRange(1, 6).Draw(t, "n")
	case k < 8:
		n = rapid.IntRange(7, 24).Draw(t, "n")
	case k < 9:
		n = rapid.IntRange(25, 63).Draw(t, "n")
	default:
		n = 64
	}
	spin, spawners := 0, 0
	for i := 0; i < n; i++ {
		s := c10States[rapid.IntRange(0, len(c10States)-1).Draw(t, "state")]
		// spinning threads occupy a P each: keep them below GOMAXPROCS so the loader still runs promptly
		if s == "spin" {
			if spin >= c.GOMAXPROCS-1 || spin >= 3 {
				s = "nanosleep"
			} else {
				spin++
			}
		}
		if s == "spawner" {
			// With a single P, goroutines that exit while locked to their thread (that is how threads are destroyed here)
			// now and then stall the Go scheduler of the child for tens of seconds (all goroutines runnable, no M running
			// them; seen in goroutine dumps of timed-out children). That is the harness's runtime, not the property:
			// no thread spawner when GOMAXPROCS is 1.
			if spawners >= 2 || c.GOMAXPROCS == 1 {
				s = "read"
			} else {
				spawners++
			}
		}
		c.States = append(c.States, s)
	}
	return c
}

func c10Policy() spec.Policy { return c10PolicyFor("x86_64") }

func c10PolicyFor(archName string) spec.Policy {
	return spec.Policy{Arch: archName, Default: actAllow, Groups: []spec.Group{{Action: actErrno, Names: []string{"getppid"}}}}
}

var c10Stats struct{ runs, loadFailed int }

func checkC10(raw json.RawMessage) (ev.Result, error) {
	var c c10Case
	if err := json.Unmarshal(raw, &c); err != nil {
		return ev.Result{}, ev.Inconclusivef("bad case: %v", err)
	}
	if hostArchName() != "x86_64" {
		return ev.Result{}, ev.Inconclusivef("kernel checks are set up for an x86_64 host")
	}
	archName := "x86_64"
	if c.GOARCH == "386" {
		archName = "i386"
	}
	nr, _ := model.Number(archName, "getppid")
	probes := []kjob.Probe{{Nr: nr, Args: [6]uint64{1, 2, 3, 4, 5, 6}}}
	var sts []kjob.StateThread
	for _, s := range c.States {
		sts = append(sts, kjob.StateThread{State: s})
	}
	// steps 0..2 are fixed so that the indices below stay valid: 0 mkthreads, 1 states, 2 optional fault
	fault := kjob.Step{Op: "sleep", N: 0}
	switch {
	case c.Divergent:
		dp := c10PolicyFor(archName)
		th := 1
		pflag := uint32(0)
		switch c.PriorKind {
		case "other-thread-same":
		case "same-thread-same":
			th = 0
		case "same-thread-tsync":
			th, pflag = 0, 1
			dp.Groups[0].Names = []string{"getuid"}
		default:
			dp.Groups[0].Names = []string{"getuid"}
		}
		fault = kjob.Step{Op: "load", Thread: th, Filter: &kjob.FilterSpec{Policy: dp, NNP: true, Flag: pflag, HostArch: true}}
	case c.EnosysFault:
		fault = kjob.Step{Op: "outer-enosys"}
	case c.EinvalLog:
		fault = kjob.Step{Op: "outer-einval-log"}
	case c.PriorRefused:
		if c.Uid != 0 || c.Unlocked || c.Strace {
			return ev.Result{}, ev.Inconclusivef("the refused earlier load is combined with plain root plans without strace only")
		}
		fault = kjob.Step{Op: "load", Thread: 1, Filter: &kjob.FilterSpec{Policy: c09PolicyFor(archName, c09Op{Kind: "oversize"}), NNP: false, Flag: 1 | c.Flag&2, HostArch: true}}
	}
	pol := c10PolicyFor(archName)
	if c.LogGroup {
		pol.Groups = append(pol.Groups, spec.Group{Action: actLog, Names: []string{"getgid"}})
	}
	if c.AllowOnly {
		if c.Divergent || c.EnosysFault || c.EinvalLog || c.Unlocked || c.LogGroup {
			return ev.Result{}, ev.Inconclusivef("allow-only policies are combined with plain plans only")
		}
		pol.Groups = []spec.Group{{Action: actAllow, Names: []string{"getppid", "getuid"}}}
	}
	loadThread := 0
	if c.Unlocked {
		loadThread = -1
	}
	priorSynced := c.Divergent && c.PriorKind == "same-thread-tsync"
	job := &kjob.Job{GOMAXPROCS: c.GOMAXPROCS, Uname26: c.Uname26, Steps: []kjob.Step{
		{Op: "mkthreads", N: 2},
		{Op: "states", States: sts},
		fault,
		{Op: "load", Thread: loadThread, Filter: &kjob.FilterSpec{Policy: pol, NNP: c.NNP, Flag: c.Flag, HostArch: true}},
		{Op: "release", Probes: probes},
		{Op: "spawn", N: c.SpawnAfter, Probes: probes},
		{Op: "allstatus"},
		{Op: "probe", Thread: 0, Probes: probes},
		{Op: "sleep", N: c.DelayUs},
	}}
	if c.DelayUs > 0 && !c.Divergent && !c.EnosysFault && !c.EinvalLog && !c.PriorRefused {
		job.Steps[2] = kjob.Step{Op: "sleep", N: c.DelayUs}
	}
	ro := kchild.RunOpts{Strace: c.Strace, Timeout: 45e9, Uid: c.Uid, GOARCH: c.GOARCH, HideSysctl: c.HideSysctl && !c.Strace && c.Uid == 0 && !c.Unlocked}
	if c.Unlocked {
		ro.Strace, ro.Inject, ro.Timeout = true, "prctl:delay_exit=200000", 90e9
	}
	rr, err := kchild.Run(job, ro)
	if err != nil {
		return ev.Result{}, ev.Inconclusivef("%v", err)
	}
	if rr.TimedOut || rr.Signaled || !rr.Done() {
		return ev.Result{}, ev.Inconclusivef("child did not finish (timeout %v, signal %v, exit %d, stderr %q)", rr.TimedOut, rr.Signal, rr.Exit, clip(rr.Stderr, 3000))
	}
	c10Stats.runs++
	le := rr.Find(3, "load")
	if len(le) != 1 {
		return ev.Result{}, ev.Inconclusivef("no load event")
	}
	ld := le[0]
	tsync := c.Flag&1 != 0
	res := ev.Result{Classes: []string{fmt.Sprintf("flag:%d", c.Flag), fmt.Sprintf("gomaxprocs:%d", c.GOMAXPROCS), fmt.Sprintf("uid:%d", c.Uid)}}
	if c.Uid != 0 && !c.NNP {
		res.Classes = append(res.Classes, "unprivileged-without-no-new-privs")
	}
	res.Classes = append(res.Classes, "abi:"+map[string]string{"": "amd64", "386": "386"}[c.GOARCH])
	if c.EinvalLog {
		if oe := rr.Find(2, "outer-einval-log"); len(oe) != 1 || oe[0].Err != "" {
			return res, ev.Inconclusivef("could not inject the EINVAL-for-log fault")
		}
		res.Classes = append(res.Classes, "fault:log-flag-answered-EINVAL", fmt.Sprintf("einval-log/flag:%d", c.Flag))
	}
	if c.Uname26 {
		res.Classes = append(res.Classes, "process-reports-a-2.6-kernel-release", fmt.Sprintf("uname26/flag:%d", c.Flag))
	}
	if priorSynced {
		if pl := rr.Find(2, "load"); len(pl) != 1 || !pl[0].Nil {
			return res, ev.Inconclusivef("the earlier thread-sync load did not succeed")
		}
		res.Classes = append(res.Classes, "earlier-load-with-thread-sync-in-the-same-process")
		if !tsync {
			res.Classes = append(res.Classes, "load-without-thread-sync-after-one-with")
		}
	} else if c.Divergent {
		res.Classes = append(res.Classes, "fault:another-thread-carries-its-own-filter")
	}
	if c.LogGroup {
		res.Classes = append(res.Classes, "policy-with-log-action")
	}
	if c.PriorRefused {
		pl := rr.Find(2, "load")
		if len(pl) != 1 || pl[0].Nil {
			return res, ev.Inconclusivef("the earlier oversize load was not refused: %+v", pl)
		}
		if strings.Contains(pl[0].Err, "invalid argument") {
			res.Classes = append(res.Classes, "earlier-thread-sync-load-refused-with-EINVAL")
		} else {
			// (a loader that refuses oversize programs itself never asks the kernel: the history is then an ordinary one)
			res.Classes = append(res.Classes, "earlier-thread-sync-load-refused-by-the-library")
		}
	}
	if c.EnosysFault {
		if oe := rr.Find(2, "outer-enosys"); len(oe) != 1 || oe[0].Err != "" {
			return res, ev.Inconclusivef("could not inject the ENOSYS fault")
		}
		res.Classes = append(res.Classes, "fault:seccomp-ENOSYS")
	}
	if !ld.Nil {
		// the statement speaks about loads that return nil
		// (statistics of unexpected failures: the configurations in which the kernel has to refuse are not counted)
		expected := c.Divergent || c.EnosysFault || (c.Uid != 0 && !c.NNP) || (c.EinvalLog && c.Flag&2 != 0)
		if !expected {
			c10Stats.loadFailed++
		}
		res.Classes = append(res.Classes, "load-failed(no-claim)")
		return res, nil
	}
	// under the ENOSYS fault every thread already carries the injecting filter: only the probes tell
	// (and after an earlier thread-sync load every thread is in filter mode already)
	modeOK := func(seccomp, want int) bool {
		if priorSynced {
			want = 2
		}
		return c.EnosysFault || c.EinvalLog || seccomp == want
	}
	// flag word reaches the kernel unmodified
	nFilter := 0
	for _, cap := range ld.Captures {
		if cap.Op == 1 {
			nFilter++
			if cap.Flags != c.Flag {
				return res, fmt.Errorf("flags word passed to seccomp(2) is %#x, requested %#x", cap.Flags, c.Flag)
			}
		}
	}
	if nFilter != 1 {
		return res, fmt.Errorf("LoadFilter issued %d filter installations, want exactly 1", nFilter)
	}
	if c.Strace {
		n := 0
		for _, s := range rr.Strace {
			if s.Name == "seccomp" && len(s.Args) > 0 && s.Args[0] == "0x1" {
				n++
				want := fmt.Sprintf("%#x", c.Flag)
				if c.Flag == 0 {
					want = "0"
				}
				if len(s.Args) < 2 || s.Args[1] != want {
					return res, fmt.Errorf("strace: seccomp(%v) at the system-call boundary, requested flags %#x", s.Args, c.Flag)
				}
			}
		}
		if n != 1 {
			return res, ev.Inconclusivef("strace saw %d seccomp calls", n)
		}
		res.Classes = append(res.Classes, "strace-flags-word")
	}
	reports := rr.Find(4, "state-thread")
	if len(reports) != len(c.States) {
		return res, ev.Inconclusivef("%d of %d state threads reported", len(reports), len(c.States))
	}
	denied := func(r kjob.ProbeResult) (bool, error) {
		switch r.Errno {
		case 0:
			return false, nil
		case 1:
			return true, nil
		}
		return false, ev.Inconclusivef("probe errno %d", r.Errno)
	}
	if c.AllowOnly {
		res.Classes = append(res.Classes, "policy-that-allows-everything")
	}
	if c.HideSysctl && len(rr.Find(-1, "env")) > 0 {
		res.Classes = append(res.Classes, "seccomp-sysctl-hidden")
	}
	statesSeen := map[string]bool{}
	inSyscall := false
	for _, r := range reports {
		statesSeen[r.State] = true
		if r.State != "spin" {
			inSyscall = true
		}
		if len(r.Results) != 1 || len(r.Status) != 1 {
			return res, ev.Inconclusivef("incomplete report of a state thread")
		}
		d, err := denied(r.Results[0])
		if err != nil {
			return res, err
		}
		st := r.Status[0]
		if c.AllowOnly {
			d = st.Seccomp == 2 // nothing is denied by this policy: the mode tells
		}
		if tsync {
			if !d || !modeOK(st.Seccomp, 2) {
				return res, fmt.Errorf("thread-sync requested and LoadFilter returned nil, but thread %d (tid %d, state %q while the load ran, %d threads, GOMAXPROCS %d) is not filtered: Seccomp=%d, probe denied=%v",
					r.Idx, r.Tid, r.State, len(c.States), c.GOMAXPROCS, st.Seccomp, d)
			}
		} else {
			if d || !modeOK(st.Seccomp, 0) {
				return res, fmt.Errorf("thread-sync NOT requested, but pre-existing thread %d (state %q) was touched: Seccomp=%d, probe denied=%v", r.Idx, r.State, st.Seccomp, d)
			}
			// untouched includes the no_new_privs bit (the earlier thread-sync load and the injected fault hand the bit
			// to every thread themselves: nothing to tell then)
			if st.NNP != 0 && !priorSynced && !c.EnosysFault && !c.EinvalLog {
				return res, fmt.Errorf("thread-sync NOT requested (flags %#x, no_new_privs requested: %v), but pre-existing thread %d (state %q) now has no_new_privs=%d", c.Flag, c.NNP, r.Idx, r.State, st.NNP)
			}
			if c.NNP {
				res.Classes = append(res.Classes, "no-new-privs-of-other-threads-checked")
			}
		}
	}
	for _, r := range rr.Find(5, "spawned-thread") {
		if len(r.Results) != 1 || len(r.Status) != 1 {
			return res, ev.Inconclusivef("incomplete report of a spawned thread")
		}
		d, err := denied(r.Results[0])
		if err != nil {
			return res, err
		}
		if c.AllowOnly {
			d = r.Status[0].Seccomp == 2
		}
		if tsync && (!d || r.Status[0].Seccomp != 2) {
			return res, fmt.Errorf("thread-sync requested, but a thread created after the load is not filtered: Seccomp=%d, probe denied=%v", r.Status[0].Seccomp, d)
		}
		res.Classes = append(res.Classes, "thread-created-after-load")
	}
	// every other thread of the process (runtime threads) and the loader
	as := rr.Find(6, "status")
	if c.Unlocked && len(ld.Status) > 0 {
		res.Classes = append(res.Classes, "unlocked-caller-with-slow-prctl")
		filtered, withBit := 0, 0
		for _, s := range ld.Status {
			if s.Seccomp == 2 {
				filtered++
			}
			if s.NNP == 1 {
				withBit++
			}
			if !tsync && s.NNP == 1 && s.Seccomp != 2 {
				return res, fmt.Errorf("thread-sync NOT requested: thread %d (%s) was given no_new_privs although the filter is not on it (Seccomp=%d): another thread than the installing one was touched", s.Tid, s.Role, s.Seccomp)
			}
			if !tsync && s.Seccomp == 2 && s.NNP != 1 {
				return res, fmt.Errorf("the filter was installed on thread %d, which does not carry the requested no_new_privs bit", s.Tid)
			}
		}
		// (the installing thread may be gone by the time the states are read: once LoadFilter has returned, the goroutine no
		// longer holds it, and one of the helper's own short-lived locked goroutines - state "spawner" - can take it to its
		// grave. Exactly one filtered thread is demanded only while the thread that made the installing call still exists.)
		installer, present := -1, false
		for _, cap := range ld.Captures {
			if cap.Op == 1 {
				installer = cap.Tid
			}
		}
		for _, s := range ld.Status {
			if s.Tid == installer && !s.Gone {
				present = true
			}
		}
		if !tsync && (filtered > 1 || (present && filtered != 1)) {
			return res, fmt.Errorf("thread-sync NOT requested and LoadFilter returned nil: %d threads are in filter mode, want exactly the installing one (thread %d)", filtered, installer)
		}
		if !present {
			res.Classes = append(res.Classes, "installing-thread-gone-before-inspection")
		}
	}
	if len(as) == 1 && !c.Unlocked {
		for _, s := range as[0].Status {
			if s.Role == "command" && s.Idx == 0 && s.Seccomp != 2 {
				return res, fmt.Errorf("the loading thread has Seccomp=%d after a nil result", s.Seccomp)
			}
			if tsync && s.Role == "runtime" && s.Seccomp != 2 {
				return res, fmt.Errorf("thread-sync requested, but runtime thread %d has Seccomp=%d", s.Tid, s.Seccomp)
			}
		}
	}
	lp := rr.Find(7, "probe")
	if len(lp) == 1 && len(lp[0].Results) == 1 && (!c.Unlocked || tsync) {
		if d, _ := denied(lp[0].Results[0]); !d && !c.AllowOnly {
			return res, fmt.Errorf("the loading thread is not subject to its own filter")
		}
	}
	for s := range statesSeen {
		res.Classes = append(res.Classes, "state:"+s)
	}
	if len(c.States) == 64 {
		res.Classes = append(res.Classes, "threads:64")
	}
	if len(c.States) >= 25 {
		res.Classes = append(res.Classes, "threads>=25")
	}
	res.NonTrivial = len(c.States) >= 2 && len(statesSeen) >= 2 && inSyscall
	res.Sub = len(c.States) + c.SpawnAfter
	return res, nil
}

func TestC10ThreadSync(t *testing.T) {
	ev.Prop(t, "C10", "plan", drawC10, checkC10)
	if c10Stats.runs > 10 && c10Stats.loadFailed*5 > c10Stats.runs {
		ev.MarkInconclusive("C10", "%d of %d loads failed", c10Stats.loadFailed, c10Stats.runs)
	}
}
