package props

import (
	"bufio"
	"bytes"
	"context"
	"encoding/json"
	"fmt"
	"os"
	"os/exec"
	"path/filepath"
	"sort"
	"strings"
	"syscall"
	"testing"
	"time"

	yaml "gopkg.in/yaml.v2"
	"pgregory.net/rapid"

	"verif/harness/internal/cfgwriter"
	"verif/harness/internal/ev"
	"verif/harness/internal/gen"
	"verif/harness/internal/kchild"
	"verif/harness/internal/kjob"
	"verif/harness/internal/model"
	"verif/harness/internal/oracle"
	"verif/harness/internal/spec"
)

// C15 — the sandbox command runs its target only under the loaded policy.

type c15Case struct {
	Policy   spec.Policy  `json:"policy"`
	Spelling uint64       `json:"spelling"`
	Defect   string       `json:"defect"` // "" = valid file
	Pos      int          `json:"pos"`
	NNP      bool         `json:"nnp"`
	Uid      int          `json:"uid"`
	Events   []spec.Event `json:"events"`
	// DenyExec: the (valid) policy answers errno to execve/execveat: the sandbox cannot start the target.
	DenyExec bool `json:"deny_exec,omitempty"`
	// Env: further environment variables of the sandbox process (a cross-compilation shell exports GOARCH/GOOS; other
	// variables of the Go tool chain and of common libraries). None of them is an input of the sandbox command.
	Env []string `json:"env,omitempty"`
	// GOARCH: "" = the amd64 build of the sandbox command and of the target; "386" = 386 builds of both (valid policies
	// only; the policy is then one for the i386 table)
	GOARCH string `json:"goarch,omitempty"`
	// NNPFlag: if set, the spelling of the no-new-privs option on the command line ("absent" = not given at all),
	// instead of -no-new-privs=<NNP>
	NNPFlag string `json:"nnp_flag,omitempty"`
	// ExtraKeys != 0 (valid files only): groups carry keys the documented dialect does not have (arch: <some architecture>,
	// comment: ..., architectures: [...]). The file is refused, or it means what it means without them.
	ExtraKeys uint64 `json:"extra_keys,omitempty"`
	// Bulk > 0: comment lines make the file so large that its last group begins behind that byte offset
	Bulk int `json:"bulk,omitempty"`
	// FileName (valid files): the name of the policy file instead of policy.yml; JSONForm: its content is the policy
	// marshalled with encoding/json under the key "seccomp" (JSON is YAML's flow style; the documented way to write a
	// policy from a program). What a file means does not depend on what it is called.
	FileName string `json:"file_name,omitempty"`
	JSONForm bool   `json:"json_form,omitempty"`
	// Nested (valid files): the sandbox command is itself started by a sandbox command whose policy allows everything
	// except sync(2): the process that loads the file's policy already runs under a filter, as in a container
	Nested bool `json:"nested,omitempty"`
}

var c15ExtraKeyLines = []string{"arch: i386\n", "arch: x86_64\n", "arch: arm\n", "arch: aarch64\n", "arch: x32\n", "arch: \"386\"\n", "architectures: [i386, x32]\n", "comment: generated\n",
	"description: \"rules for 32-bit callers\"\n", "abi: i386\n", "arches:\n- i386\n- arm\n", "default_action: allow\n", "args: []\n"}

func c15ExtraKey(seed uint64, gi int) string {
	h := gen.Mix(seed, uint64(gi)+1)
	if h%3 == 0 {
		return ""
	}
	return c15ExtraKeyLines[(h/3)%uint64(len(c15ExtraKeyLines))]
}

var c15Defects = []string{"missing-file", "empty-file", "yaml-syntax", "wrong-type", "unknown-syscall", "unknown-syscall-conditional", "unknown-action",
	"unknown-default-action", "unknown-operation", "no-seccomp-key", "empty-syscalls", "argument-index-6", "oversize-program", "unprivileged-without-nnp", "binary-garbage", "entry-without-arguments", "entry-with-empty-arguments"}

// c15UnknownName: a name that is not a syscall of x86_64 - half of the time one that exists nowhere, otherwise a real
// syscall name of another architecture (socketcall, mmap2, waitpid, stat64 ...), which is just as unknown here.
func c15UnknownName(pos int) string {
	if pos%2 == 0 {
		// (the last ones would be syscalls if something expanded variables or stripped prefixes; nothing does)
		return []string{"no_such_syscall", "getppidd", "sys_read", "READ", "${NOSUCHVAR:sync}", "sys_sync", "${PROBE_NAME}", "__NR_sync"}[(pos/2)%8]
	}
	var foreign []string
	info := spec.ArchInfo("x86_64")
	for _, a := range []string{"i386", "arm", "aarch64"} {
		for _, n := range oracle.Names(a) {
			if _, ok := info.SyscallNames[n]; ok {
				continue
			}
			if _, ok := oracle.Table("x86_64")[n]; ok {
				continue
			}
			foreign = append(foreign, n)
		}
	}
	if len(foreign) == 0 {
		return "no_such_syscall"
	}
	sort.Strings(foreign)
	return foreign[(pos/2)%len(foreign)]
}

func drawC15(t *rapid.T) c15Case {
	c := c15Case{Spelling: rapid.Uint64().Draw(t, "spelling"), NNP: true}
	c.Policy = drawProbePolicy(t, "x86_64", []uint32{actAllow, actErrno, actErrno, actLog, actTrace, actKillP}, []uint32{actAllow, actAllow, actErrno, actLog})
	if rapid.IntRange(0, 1).Draw(t, "invalid") == 1 {
		c.Defect = c15Defects[rapid.IntRange(0, len(c15Defects)-1).Draw(t, "defect")]
		c.Pos = rapid.IntRange(0, 1<<16).Draw(t, "pos")
	}
	if c.Defect == "" && rapid.IntRange(0, 5).Draw(t, "denyExec") == 0 {
		c.DenyExec = true
		c.Policy = c15DenyExecPolicy(rapid.IntRange(0, 2).Draw(t, "denyExecShape"))
	}
	if c.Defect == "" && !c.DenyExec && rapid.IntRange(0, 3).Draw(t, "abi") == 0 {
		c.GOARCH = "386"
		c.Policy = drawProbePolicy(t, "i386", []uint32{actAllow, actErrno, actErrno, actLog, actTrace, actKillP}, []uint32{actAllow, actAllow, actErrno, actLog})
	}
	if rapid.IntRange(0, 3).Draw(t, "hostileEnv") == 0 {
		all := []string{"GOARCH=386", "GOARCH=arm", "GOARCH=arm64", "GOARCH=mips", "GOARCH=wasm", "GOOS=darwin", "GOOS=windows", "GOOS=js", "GOFLAGS=-tags=foo", "GOMAXPROCS=1",
			"GODEBUG=asyncpreemptoff=1", "LANG=tr_TR.UTF-8", "LC_ALL=C", "TZ=Pacific/Kiritimati", "SECCOMP=0", "NO_NEW_PRIVS=0", "TMPDIR=/nonexistent", "PWD=/nonexistent", "GOTRACEBACK=none"}
		n := rapid.IntRange(1, 4).Draw(t, "nEnv")
		for i := 0; i < n; i++ {
			c.Env = append(c.Env, all[rapid.IntRange(0, len(all)-1).Draw(t, "env")])
		}
	}
	if c.Defect == "" && rapid.IntRange(0, 3).Draw(t, "fileName") == 0 {
		c.FileName = []string{"policy.yaml", "policy.json", "POLICY.JSON", "policy.Json", "policy", "policy.txt", "policy.conf", "policy.toml", "policy.yml.bak", "p.json.yml", ".json", "policy.js", "policy.xml", "policy.ini"}[rapid.IntRange(0, 13).Draw(t, "name")]
		c.JSONForm = rapid.Bool().Draw(t, "jsonForm")
	}
	c.Nested = c.Defect == "" && rapid.IntRange(0, 4).Draw(t, "nested") == 0
	if rapid.IntRange(0, 7).Draw(t, "bulk") == 0 {
		c.Bulk = []int{65536, 65536, 131072, 1 << 20}[rapid.IntRange(0, 3).Draw(t, "bulkSize")]
	}
	if c.JSONForm {
		c.Bulk = 0 // (the bulk is made of comment lines)
	}
	if c.Defect == "" && !c.JSONForm && rapid.IntRange(0, 3).Draw(t, "extraKeys") == 0 {
		c.ExtraKeys = rapid.Uint64Range(1, 1<<40).Draw(t, "extraKeySeed")
	}
	switch rapid.IntRange(0, 3).Draw(t, "mode") {
	case 0:
		c.NNP = false
	case 1:
		c.Uid = 65534
	}
	if c.Defect == "unprivileged-without-nnp" {
		c.Uid, c.NNP = 65534, false
	}
	evs := probeEvents(&c.Policy, rapid.Uint64().Draw(t, "eventSeed"), 1, c.GOARCH == "386")
	r := gen.NewRng(rapid.Uint64().Draw(t, "orderSeed"))
	for i := len(evs) - 1; i > 0; i-- {
		j := r.Intn(i + 1)
		evs[i], evs[j] = evs[j], evs[i]
	}
	if len(evs) > 30 {
		evs = evs[:30]
	}
	c.Events = evs
	return c
}

// policyText renders the policy file, with the defect injected.
// c15PolicyText renders the policy file of the case. Bulk > 0: a block of comment lines in front of the last group makes
// that group begin behind byte Bulk of the file (a file is a policy whatever its size).
func c15PolicyText(c *c15Case) (text string, writeFile bool) {
	text, writeFile = c15PolicyTextBase(c)
	if c.Bulk <= 0 || !writeFile || text == "" || c.Bulk > 4<<20 {
		return text, writeFile
	}
	lines := strings.SplitAfter(text, "\n")
	last, off, lastOff := -1, 0, 0
	for i, l := range lines {
		if strings.HasPrefix(l, "  - ") {
			last, lastOff = i, off
		}
		off += len(l)
	}
	if last < 0 || lastOff > c.Bulk {
		return text, writeFile
	}
	var pad strings.Builder
	for pad.Len() < c.Bulk-lastOff+200 {
		pad.WriteString("  # " + strings.Repeat("-", 70) + "\n")
	}
	return strings.Join(lines[:last], "") + pad.String() + strings.Join(lines[last:], ""), writeFile
}

func c15PolicyTextBase(c *c15Case) (text string, writeFile bool) {
	p := c.Policy
	ensureCond := func() {
		for _, g := range p.Groups {
			if len(g.Conds) > 0 {
				return
			}
		}
		p.Groups = append(append([]spec.Group(nil), p.Groups...), spec.Group{Action: actErrno, Conds: []spec.CondEntry{{Name: "getpgrp", Conds: []spec.Cond{{Arg: 2, Op: "Equal", Val: 12345}}}}})
	}
	copyGroups := func() {
		gs := make([]spec.Group, len(p.Groups))
		for i, g := range p.Groups {
			gs[i] = g
			gs[i].Names = append([]string(nil), g.Names...)
			gs[i].Conds = nil
			for _, ce := range g.Conds {
				ce.Conds = append([]spec.Cond(nil), ce.Conds...)
				gs[i].Conds = append(gs[i].Conds, ce)
			}
		}
		p.Groups = gs
	}
	copyGroups()
	switch c.Defect {
	case "unknown-syscall":
		gi := c.Pos % len(p.Groups)
		g := &p.Groups[gi]
		at := 0
		if len(g.Names) > 0 {
			at = (c.Pos / 7) % (len(g.Names) + 1)
		}
		g.Names = append(g.Names[:at:at], append([]string{c15UnknownName(c.Pos)}, g.Names[at:]...)...)
	case "unknown-syscall-conditional":
		ensureCond()
		copyGroups()
		var idx [][2]int
		for gi, g := range p.Groups {
			for ei := range g.Conds {
				idx = append(idx, [2]int{gi, ei})
			}
		}
		k := idx[c.Pos%len(idx)]
		p.Groups[k[0]].Conds[k[1]].Name = []string{"getppidd", c15UnknownName(c.Pos | 1)}[(c.Pos/3)%2]
	case "argument-index-6":
		ensureCond()
		copyGroups()
		var idx [][3]int
		for gi, g := range p.Groups {
			for ei, ce := range g.Conds {
				for ci := range ce.Conds {
					idx = append(idx, [3]int{gi, ei, ci})
				}
			}
		}
		k := idx[c.Pos%len(idx)]
		// 6 and beyond, and the indices whose byte offset 16+8*index wraps around 2^32 onto a valid argument
		p.Groups[k[0]].Conds[k[1]].Conds[k[2]].Arg = []uint32{6, 6, 7, 255, 536870912, 1610612741, 1 << 30, 1 << 31, 0xffffffff, 0x20000005}[(c.Pos/13)%10]
	case "unknown-operation":
		ensureCond()
		copyGroups()
	case "oversize-program":
		g := oversizeGroup()
		g.Names = nil
		// an action that differs from the default action: a compiler may drop groups that cannot change the verdict
		if p.Default == g.Action {
			g.Action = actLog
		}
		p.Groups = append(p.Groups, g)
	}
	text = cfgwriter.YAML(&p, c.Spelling)
	if c.JSONForm && c.Defect == "" && c.ExtraKeys == 0 {
		b, err := json.Marshal(map[string]any{"seccomp": p.ToSeccomp()})
		if err == nil {
			return string(b) + "\n", true
		}
	}
	if c.ExtraKeys != 0 && c.Defect == "" {
		text = cfgwriter.YAMLExtra(&p, c.Spelling, func(gi int) string { return c15ExtraKey(c.ExtraKeys, gi) })
	}
	lines := strings.Split(text, "\n")
	pick := func(pred func(string) bool) int {
		var idx []int
		for i, l := range lines {
			if pred(l) {
				idx = append(idx, i)
			}
		}
		if len(idx) == 0 {
			return -1
		}
		return idx[c.Pos%len(idx)]
	}
	switch c.Defect {
	case "missing-file":
		return "", false
	case "empty-file":
		return "", true
	case "binary-garbage":
		return "\x00\x01\x02seccomp:\xff\xfe\n\t- [", true
	case "yaml-syntax":
		i := pick(func(l string) bool {
			return strings.TrimSpace(l) != "" && !strings.HasPrefix(strings.TrimSpace(l), "#")
		})
		if i >= 0 {
			switch c.Pos % 3 {
			case 0:
				lines[i] = lines[i] + ": : ["
			case 1:
				lines[i] = "\t" + lines[i]
			default:
				lines[i] = strings.Replace(lines[i], ":", " {", 1)
			}
		}
	case "wrong-type":
		i := pick(func(l string) bool {
			return strings.Contains(l, "syscalls:") || strings.Contains(l, "names:") || strings.Contains(l, "arguments:")
		})
		if i >= 0 {
			// a scalar where a list is expected; drop the nested lines of that key
			ind := len(lines[i]) - len(strings.TrimLeft(lines[i], " -"))
			key := strings.SplitN(lines[i], ":", 2)[0]
			lines[i] = key + ": 17"
			j := i + 1
			for j < len(lines) {
				lj := lines[j]
				indj := len(lj) - len(strings.TrimLeft(lj, " "))
				if strings.TrimSpace(lj) == "" || indj > ind || (indj == ind && strings.HasPrefix(strings.TrimSpace(lj), "- ") && !strings.Contains(key, "-")) {
					j++
					continue
				}
				break
			}
			lines = append(lines[:i+1], lines[j:]...)
		}
	case "unknown-action":
		i := pick(func(l string) bool { return strings.Contains(l, "action:") && !strings.Contains(l, "default_action") })
		if i >= 0 {
			lines[i] = strings.SplitN(lines[i], "action:", 2)[0] + "action: permit"
		}
	case "unknown-default-action":
		i := pick(func(l string) bool { return strings.Contains(l, "default_action:") })
		if i >= 0 {
			lines[i] = strings.SplitN(lines[i], "default_action:", 2)[0] + "default_action: " + []string{"permit", "deny", "0"}[c.Pos%3]
		}
	case "unknown-operation":
		i := pick(func(l string) bool { return strings.Contains(l, "operation:") })
		if i < 0 {
			return text, true
		}
		if strings.Contains(lines[i], "{") {
			lines[i] = strings.Replace(lines[i], "operation:", "operation: Matches #", 1)
		} else {
			lines[i] = strings.SplitN(lines[i], "operation:", 2)[0] + "operation: Matches"
		}
	case "no-seccomp-key":
		for i, l := range lines {
			if strings.HasPrefix(l, "seccomp:") {
				lines[i] = "sandbox:"
			}
		}
	case "empty-syscalls":
		var out []string
		skip := false
		for _, l := range lines {
			if strings.HasPrefix(l, "  syscalls:") {
				out = append(out, "  syscalls: []")
				skip = true
				continue
			}
			if skip && (strings.HasPrefix(l, "  -") || strings.HasPrefix(l, "   ")) {
				continue
			}
			skip = false
			out = append(out, l)
		}
		lines = out
	}
	text = strings.Join(lines, "\n")
	if c.Defect == "entry-without-arguments" || c.Defect == "entry-with-empty-arguments" {
		// a first group with a conditional entry that has no conditions at all
		name, action := c15BareEntry(c)
		g := "  - action: " + oracle.ActionName(action) + "\n    names_with_args:\n    - name: " + name + "\n"
		if c.Defect == "entry-with-empty-arguments" {
			g += "      arguments: []\n"
		}
		text = strings.Replace(text, "  syscalls:\n", "  syscalls:\n"+g, 1)
	}
	if c.Defect == "yaml-syntax" {
		// the injected edit must really be a syntax error (judged by a YAML parser, not by the code under test)
		var any interface{}
		if yaml.Unmarshal([]byte(text), &any) == nil {
			text += "\n  broken: [unclosed, {\n"
		}
	}
	return text, true
}

type c15Run struct {
	exit     int
	signaled bool
	signal   syscall.Signal
	stdout   string
	stderr   string
	marker   bool
	timedOut bool
}

// c15BareEntry: which probe gets the condition-less entry, and with which action
// (one that differs from the default, so that a silently dropped rule is visible).
func c15BareEntry(c *c15Case) (string, uint32) {
	name := probeNames[c.Pos%len(probeNames)]
	action := actErrno
	if c.Policy.Default == actErrno {
		action = actAllow
	}
	return name, action
}

func runSandbox(c *c15Case, text string, writeFile bool) (*c15Run, error) {
	sbName, probeName := "sandbox", "probe"
	if c.GOARCH == "386" {
		sbName, probeName = "sandbox_386", "probe_386"
	}
	sb, err := kchild.Bin(sbName)
	if err != nil {
		return nil, err
	}
	target, err := kchild.Bin(probeName)
	if err != nil {
		return nil, err
	}
	dir, err := os.MkdirTemp(os.Getenv("VERIF_TMP"), "c15")
	if err != nil {
		return nil, err
	}
	defer os.RemoveAll(dir)
	os.Chmod(dir, 0o777)
	policyPath := filepath.Join(dir, "policy.yml")
	if c.FileName != "" && c.Defect == "" {
		policyPath = filepath.Join(dir, c.FileName)
	}
	if writeFile {
		if err := os.WriteFile(policyPath, []byte(text), 0o644); err != nil {
			return nil, err
		}
	}
	marker := filepath.Join(dir, "marker")
	jobPath := filepath.Join(dir, "probes.json")
	var probes []kjob.Probe
	for _, e := range c.Events {
		probes = append(probes, kjob.Probe{Nr: e.Nr, Args: e.Args})
	}
	b, _ := json.Marshal(probes)
	os.WriteFile(jobPath, b, 0o644)
	ctx, cancel := context.WithTimeout(context.Background(), 30*time.Second)
	defer cancel()
	args := []string{"-policy", policyPath}
	cwd, home := dir, dir
	if c.Defect == "missing-file" && c.Pos%4 != 0 {
		// The named file does not exist where the name points to (relative to the working directory), but files of that
		// name - valid, permissive policies - lie in other plausible places: next to the sandbox executable, in the
		// home directory, in the parent of the working directory. None of them is the file the user named.
		rel := []string{"", "policy.yml", "seccomp.yml", "policies/site.yml"}[c.Pos%4]
		bin := filepath.Join(dir, "bin")
		cwd, home = filepath.Join(dir, "work"), filepath.Join(dir, "home")
		for _, d := range []string{bin, cwd, home} {
			os.MkdirAll(d, 0o777)
			os.Chmod(d, 0o777)
		}
		sb2 := filepath.Join(bin, "sandbox")
		if err := os.Link(sb, sb2); err != nil {
			b, rerr := os.ReadFile(sb)
			if rerr != nil {
				return nil, rerr
			}
			if err := os.WriteFile(sb2, b, 0o755); err != nil {
				return nil, err
			}
		}
		sb = sb2
		decoy := "seccomp:\n  default_action: allow\n  syscalls:\n  - action: allow\n    names:\n    - getpid\n"
		for _, d := range []string{bin, home, dir, filepath.Join(home, ".config"), filepath.Join(bin, "..", "etc")} {
			os.MkdirAll(filepath.Dir(filepath.Join(d, rel)), 0o777)
			os.WriteFile(filepath.Join(d, rel), []byte(decoy), 0o644)
		}
		args = []string{"-policy", rel}
		if rel == "seccomp.yml" {
			args = nil // the flag's default value
		}
	}
	nested := c.Nested && c.Defect == "" && !c.DenyExec && c.NNPFlag == "" && (c.NNP || c.Uid == 0)
	switch c.NNPFlag {
	case "":
		args = append(args, fmt.Sprintf("-no-new-privs=%v", c.NNP))
	case "absent":
	default:
		args = append(args, c.NNPFlag)
	}
	args = append(args, target, "arg1")
	if nested {
		outer := filepath.Join(dir, "outer.yml")
		os.WriteFile(outer, []byte("seccomp:\n  default_action: allow\n  syscalls:\n  - action: errno\n    names:\n    - sync\n"), 0o644)
		args = append([]string{"-policy", outer, sb}, args...)
	}
	cmd := exec.CommandContext(ctx, sb, args...)
	cmd.Dir = cwd
	cmd.Env = append([]string{"PATH=/usr/bin:/bin", "HOME=" + home, "PROBE_MARKER=" + marker, "PROBE_JOB=" + jobPath, "PROBE_NAME=sync"}, c.Env...)
	if c.Uid != 0 {
		cmd.SysProcAttr = &syscall.SysProcAttr{Credential: &syscall.Credential{Uid: uint32(c.Uid), Gid: uint32(c.Uid)}}
	}
	var so, se bytes.Buffer
	cmd.Stdout, cmd.Stderr = &so, &se
	if cmd.SysProcAttr == nil {
		cmd.SysProcAttr = &syscall.SysProcAttr{}
	}
	cmd.SysProcAttr.Setpgid = true
	cmd.Cancel = func() error { return syscall.Kill(-cmd.Process.Pid, syscall.SIGKILL) }
	cmd.WaitDelay = 2 * time.Second
	runErr := cmd.Run()
	r := &c15Run{stdout: so.String(), stderr: se.String(), timedOut: ctx.Err() == context.DeadlineExceeded}
	if ee, ok := runErr.(*exec.ExitError); ok {
		ws := ee.Sys().(syscall.WaitStatus)
		if ws.Signaled() {
			r.signaled, r.signal = true, ws.Signal()
		} else {
			r.exit = ws.ExitStatus()
		}
	} else if runErr != nil {
		return nil, runErr
	}
	if _, err := os.Stat(marker); err == nil {
		r.marker = true
	}
	return r, nil
}

func checkC15(raw json.RawMessage) (ev.Result, error) {
	var c c15Case
	if err := json.Unmarshal(raw, &c); err != nil {
		return ev.Result{}, ev.Inconclusivef("bad case: %v", err)
	}
	if hostArchName() != "x86_64" {
		return ev.Result{}, ev.Inconclusivef("kernel checks are set up for an x86_64 host")
	}
	text, writeFile := c15PolicyText(&c)
	run, err := runSandbox(&c, text, writeFile)
	if err != nil {
		return ev.Result{}, ev.Inconclusivef("%v", err)
	}
	if run.timedOut {
		return ev.Result{}, ev.Inconclusivef("sandbox timed out")
	}
	res := ev.Result{Classes: []string{fmt.Sprintf("uid:%d", c.Uid), fmt.Sprintf("nnp:%v", c.NNP)}}
	if len(c.Env) > 0 {
		res.Classes = append(res.Classes, "environment-with-toolchain-variables")
	}
	res.Classes = append(res.Classes, "abi:"+map[string]string{"": "amd64", "386": "386"}[c.GOARCH])
	if c.Defect == "entry-without-arguments" || c.Defect == "entry-with-empty-arguments" {
		// Either the file is refused, or the entry applies to every call of that syscall. What must not
		// happen is that the file is accepted and the rule silently never matches.
		res.Classes = append(res.Classes, "invalid:"+c.Defect)
		if !run.marker && (run.exit != 0 || run.signaled) {
			res.Classes = append(res.Classes, "entry-without-conditions:rejected")
			res.NonTrivial = true
			return res, nil
		}
		name, action := c15BareEntry(&c)
		c.Policy.Groups = append([]spec.Group{{Action: action, Names: []string{name}}}, c.Policy.Groups...)
		res.Classes = append(res.Classes, "entry-without-conditions:accepted-as-unconditional")
		c.Defect = ""
	}
	if c.Defect == "missing-file" && c.Pos%4 != 0 {
		res.Classes = append(res.Classes, "missing-file-with-namesakes-elsewhere")
	}
	if c.Defect != "" {
		res.Classes = append(res.Classes, "invalid:"+c.Defect)
		if run.marker {
			return res, fmt.Errorf("policy file with defect %q: the target program was started (marker exists); sandbox exit %d, stderr %q\n%s", c.Defect, run.exit, clip(run.stderr, 300), clip(text, 1200))
		}
		if run.exit == 0 && !run.signaled {
			return res, fmt.Errorf("policy file with defect %q: sandbox exited 0 (stderr %q)\n%s", c.Defect, clip(run.stderr, 300), clip(text, 1200))
		}
		res.NonTrivial = c.Pos%97 != 0 && c.Defect != "missing-file" && c.Defect != "empty-file"
		return res, nil
	}
	if c.DenyExec {
		// the policy itself refuses execve: the filter is installed before the target is started, so the target
		// must not run (it would observe a decision the policy does not make) and the sandbox reports the failure
		res.Classes = append(res.Classes, "valid-policy-that-denies-execve")
		if run.marker {
			return res, fmt.Errorf("the policy answers errno to execve/execveat, but the target program was started: the installed filter is not the file's policy (sandbox exit %d, stderr %q)\n%s", run.exit, clip(run.stderr, 300), clip(text, 1500))
		}
		if run.exit == 0 && !run.signaled {
			return res, fmt.Errorf("the policy denies execve and the target did not run, but the sandbox exited 0")
		}
		res.NonTrivial = true
		return res, nil
	}
	// valid policy: the file must load; the target runs and observes exactly the policy's decisions
	res.Classes = append(res.Classes, "valid")
	if c.Bulk > 0 {
		res.Classes = append(res.Classes, "policy-file-larger-than-64KiB")
	}
	if c.FileName != "" {
		form := "yaml"
		if c.JSONForm && c.ExtraKeys == 0 {
			form = "json"
		}
		res.Classes = append(res.Classes, "policy-file-named:"+c.FileName, "policy-file-name-extension:"+strings.ToLower(filepath.Ext(c.FileName))+"/content:"+form)
	}
	if c.Nested && !c.DenyExec && c.NNPFlag == "" && (c.NNP || c.Uid == 0) {
		res.Classes = append(res.Classes, "sandbox-started-under-an-enclosing-filter")
	}
	if c.ExtraKeys != 0 {
		res.Classes = append(res.Classes, "groups-with-keys-outside-the-dialect")
		if !run.marker && (run.exit != 0 || run.signaled) {
			res.Classes = append(res.Classes, "keys-outside-the-dialect:refused(no-claim)")
			return res, nil
		}
		res.Classes = append(res.Classes, "keys-outside-the-dialect:accepted")
	}
	if !run.marker {
		return res, fmt.Errorf("valid policy file (uid %d, no-new-privs=%v), but the target was not started: exit %d stderr %q\n%s", c.Uid, c.NNP, run.exit, clip(run.stderr, 400), clip(text, 1200))
	}
	type line struct {
		Ev    string `json:"ev"`
		K     int    `json:"k"`
		Ret   int64  `json:"ret"`
		Errno int    `json:"errno"`
	}
	var begun int
	results := map[int]line{}
	done := false
	sc := bufio.NewScanner(strings.NewReader(run.stdout))
	for sc.Scan() {
		var l line
		if json.Unmarshal(sc.Bytes(), &l) != nil {
			continue
		}
		switch l.Ev {
		case "begin":
			begun = l.K + 1
		case "end":
			results[l.K] = l
		case "done":
			done = true
		}
	}
	// baseline values of the probes (unfiltered): getppid differs per process, so only success/errno is compared
	denied, allowed := 0, 0
	for i, e := range c.Events {
		want, _, err := model.Decide(&c.Policy, e)
		if err != nil {
			return res, ev.Inconclusivef("model: %v", err)
		}
		if want == actKillP {
			// the target dies exactly here
			if begun != i+1 || done {
				return res, fmt.Errorf("probe %d (%s) is answered kill_process, but the target reached probe %d (done=%v)", i, fmtEvent(e), begun-1, done)
			}
			// how the death is reported (the sandbox's own exit status and message, or - if it executes the target in
			// place - its own death by SIGSYS) is not pinned down; it must not look like success
			if run.exit == 0 && !run.signaled {
				return res, fmt.Errorf("the target was killed by the policy, but the sandbox exited 0")
			}
			res.Classes = append(res.Classes, "target-killed-at-the-expected-probe")
			res.NonTrivial = true
			res.Sub = i + 1
			return res, nil
		}
		got, ok := results[i]
		if !ok {
			return res, fmt.Errorf("the target did not report probe %d (%s); sandbox exit %d stderr %q", i, fmtEvent(e), run.exit, clip(run.stderr, 300))
		}
		switch want {
		case actAllow, actLog:
			if got.Errno != 0 {
				return res, fmt.Errorf("target: event %s is allowed by the policy but failed with errno %d", fmtEvent(e), got.Errno)
			}
			allowed++
		case actErrno | 1:
			if got.Errno != 1 {
				return res, fmt.Errorf("target: event %s must fail with EPERM, got ret %d errno %d", fmtEvent(e), got.Ret, got.Errno)
			}
			denied++
		case actTrace:
			if got.Errno != int(syscall.ENOSYS) {
				return res, fmt.Errorf("target: event %s (trace, no tracer) must fail with ENOSYS, got errno %d", fmtEvent(e), got.Errno)
			}
			denied++
		}
	}
	if !done || run.exit != 0 {
		return res, fmt.Errorf("valid policy without kill decisions, but the target did not finish cleanly (done=%v, sandbox exit %d, stderr %q)", done, run.exit, clip(run.stderr, 300))
	}
	res.NonTrivial = denied > 0 && allowed > 0
	if res.NonTrivial {
		res.Classes = append(res.Classes, "target-sees-denied-and-allowed-probes")
	}
	res.Sub = len(c.Events)
	return res, nil
}

func TestC15Sandbox(t *testing.T) {
	ev.Prop(t, "C15", "sandbox", drawC15, checkC15)
}

// c15DenyExecPolicy: valid policies under which execve and execveat are answered errno while everything else the
// sandbox needs is allowed: (0) default errno + allow group over the table without the two, (1) default allow +
// an errno group naming them, (2) like 0 with the allow group split in two.
func c15DenyExecPolicy(shape int) spec.Policy {
	rest := spec.Group{Action: actAllow}
	for _, n := range gen.Universe("x86_64") {
		if n != "execve" && n != "execveat" {
			rest.Names = append(rest.Names, n)
		}
	}
	switch shape {
	case 1:
		return spec.Policy{Arch: "x86_64", Default: actAllow, Groups: []spec.Group{{Action: actErrno, Names: []string{"execve", "execveat"}}}}
	case 2:
		h := len(rest.Names) / 2
		return spec.Policy{Arch: "x86_64", Default: actErrno, Groups: []spec.Group{{Action: actAllow, Names: rest.Names[:h]}, {Action: actAllow, Names: rest.Names[h:]}}}
	}
	return spec.Policy{Arch: "x86_64", Default: actErrno, Groups: []spec.Group{rest}}
}

// ---- C14 through the command itself: "as the sandbox command does" ----

// drawC14Sandbox: valid policy files only - YAML in generated spellings or the json.Marshal form, under names with and
// without a telling extension, small and larger than 64 KiB - given to the sandbox command itself; the target observes
// the decisions of the in-memory policy (checkC15's oracle for valid files), for operands of all 64 bits.
func drawC14Sandbox(t *rapid.T) c15Case {
	c := drawC15(t)
	if c.Defect != "" {
		// (some defects are properties of the run, not of the file: the unprivileged run without no_new_privs)
		c.Defect, c.Pos, c.NNP, c.Uid, c.NNPFlag = "", 0, true, 0, ""
	}
	if c.FileName == "" && c.ExtraKeys == 0 && rapid.Bool().Draw(t, "c14FileName") {
		c.FileName = []string{"policy.json", "POLICY.JSON", "policy.yaml", "policy", "policy.txt", "p.json.yml"}[rapid.IntRange(0, 5).Draw(t, "c14Name")]
		c.JSONForm = rapid.IntRange(0, 2).Draw(t, "c14JSON") != 0
		if c.JSONForm {
			c.Bulk = 0
		}
	}
	return c
}

func TestC14SandboxPath(t *testing.T) {
	ev.Prop(t, "C14", "sandbox", drawC14Sandbox, checkC15)
}
