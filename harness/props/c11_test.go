package props

import (
	"encoding/json"
	"fmt"
	"strings"
	"testing"

	"pgregory.net/rapid"

	"verif/harness/internal/ev"
	"verif/harness/internal/kchild"
	"verif/harness/internal/kjob"
)

// C11 — no_new_privs is set iff requested, before install, on the installing thread.

type c11Case struct {
	Uid        int        `json:"uid"`
	NNP        bool       `json:"nnp"`
	Flag       uint32     `json:"flag"`
	Sched      kjob.Sched `json:"sched"`
	Spinners   int        `json:"spinners"`
	GOMAXPROCS int        `json:"gomaxprocs"`
	Locked     bool       `json:"locked"` // the caller itself already holds its thread
	Strace     bool       `json:"strace"`
}

func drawC11(t *rapid.T) c11Case {
	c := c11Case{
		NNP:        rapid.IntRange(0, 2).Draw(t, "nnp") != 0,
		Flag:       uint32(rapid.IntRange(0, 3).Draw(t, "flag")),
		Spinners:   []int{0, 2, 4, 8, 8}[rapid.IntRange(0, 4).Draw(t, "spinners")],
		GOMAXPROCS: []int{1, 2, 4}[rapid.IntRange(0, 2).Draw(t, "gomaxprocs")],
		Locked:     rapid.IntRange(0, 5).Draw(t, "locked") == 0,
		Strace:     rapid.IntRange(0, 9).Draw(t, "strace") == 0,
	}
	if rapid.Bool().Draw(t, "unprivileged") {
		c.Uid = 65534
	}
	switch rapid.IntRange(0, 4).Draw(t, "perturbation") {
	case 0:
	case 1:
		c.Sched.Gosched = rapid.IntRange(1, 100).Draw(t, "gosched")
	case 2:
		c.Sched.SleepUs = rapid.IntRange(100, 3000).Draw(t, "sleepUs")
	case 3:
		c.Sched.Syscalls = rapid.IntRange(1, 8).Draw(t, "syscalls")
	default:
		c.Sched = kjob.Sched{Gosched: rapid.IntRange(1, 60).Draw(t, "gosched"), SleepUs: rapid.IntRange(0, 1500).Draw(t, "sleepUs"), Syscalls: rapid.IntRange(0, 4).Draw(t, "syscalls")}
	}
	if c.Sched != (kjob.Sched{}) && c.Spinners < 2*c.GOMAXPROCS {
		// keep every P busy, otherwise the descheduled goroutine simply resumes where it was
		c.Spinners = 2 * c.GOMAXPROCS
	}
	return c
}

var c11Stats struct{ perturbed, migrated int }

func checkC11(raw json.RawMessage) (ev.Result, error) {
	var c c11Case
	if err := json.Unmarshal(raw, &c); err != nil {
		return ev.Result{}, ev.Inconclusivef("bad case: %v", err)
	}
	if hostArchName() != "x86_64" {
		return ev.Result{}, ev.Inconclusivef("kernel checks are set up for an x86_64 host")
	}
	thread := -1
	job := &kjob.Job{GOMAXPROCS: c.GOMAXPROCS}
	if c.Locked {
		job.Steps = append(job.Steps, kjob.Step{Op: "mkthreads", N: 1})
		thread = 0
	} else {
		job.Steps = append(job.Steps, kjob.Step{Op: "sleep", N: 0})
	}
	sched := c.Sched
	job.Steps = append(job.Steps,
		kjob.Step{Op: "spinners", N: c.Spinners}, // 1
		kjob.Step{Op: "control", Sched: &sched},  // 2
		kjob.Step{Op: "allstatus"},               // 3
		kjob.Step{Op: "load", Thread: thread, Sched: &sched, // 4
			Filter: &kjob.FilterSpec{Policy: c10Policy(), NNP: c.NNP, Flag: c.Flag, HostArch: true}},
		kjob.Step{Op: "stop-spinners"}, // 5
		kjob.Step{Op: "allstatus"},     // 6
	)
	rr, err := kchild.Run(job, kchild.RunOpts{Uid: c.Uid, Strace: c.Strace, Timeout: 60e9})
	if err != nil {
		return ev.Result{}, ev.Inconclusivef("%v", err)
	}
	if rr.TimedOut || rr.Signaled || !rr.Done() {
		return ev.Result{}, ev.Inconclusivef("child did not finish (timeout %v, signal %v, exit %d, stderr %q)", rr.TimedOut, rr.Signal, rr.Exit, clip(rr.Stderr, 300))
	}
	le := rr.Find(4, "load")
	ce := rr.Find(2, "control")
	before, after := rr.Find(3, "status"), rr.Find(6, "status")
	if len(le) != 1 || len(ce) != 1 || len(before) != 1 || len(after) != 1 {
		return ev.Result{}, ev.Inconclusivef("events missing")
	}
	ld := le[0]
	perturbed := c.Sched != (kjob.Sched{})
	res := ev.Result{Classes: []string{fmt.Sprintf("uid:%d/nnp:%v/flag:%d", c.Uid, c.NNP, c.Flag), fmt.Sprintf("uid:%d/nnp:%v", c.Uid, c.NNP)}}
	if perturbed && !c.Locked {
		c11Stats.perturbed++
		if ce[0].Migrated {
			c11Stats.migrated++
			res.Classes = append(res.Classes, "control-goroutine-migrated")
		}
	}
	desc := fmt.Sprintf("uid %d, no_new_privs=%v, flags %#x, perturbation %+v with %d spinners, GOMAXPROCS %d", c.Uid, c.NNP, c.Flag, c.Sched, c.Spinners, c.GOMAXPROCS)
	if ld.Panic != "" {
		return res, fmt.Errorf("LoadFilter panicked: %s", ld.Panic)
	}
	var fc []kjob.Capture
	for _, cap := range ld.Captures {
		if cap.Op == 1 {
			fc = append(fc, cap)
		}
	}
	if c.NNP {
		// requested: the load succeeds in every configuration, the bit is set before and on the installing thread
		if !ld.Nil {
			return res, fmt.Errorf("no_new_privs was requested, but LoadFilter failed (%s): %s [schedule point: %+v, control goroutine migrated: %v]", desc, ld.Err, ld.Sched, ce[0].Migrated)
		}
		if len(fc) != 1 {
			return res, fmt.Errorf("LoadFilter issued %d filter installations, want exactly 1", len(fc))
		}
		if fc[0].NNP != 1 {
			return res, fmt.Errorf("at the moment of installation the installing thread (tid %d) does not have no_new_privs set although it was requested (%s)", fc[0].Tid, desc)
		}
		if ld.Sched != nil && ld.Sched.TidBefore != fc[0].Tid {
			return res, fmt.Errorf("no_new_privs was set on thread %d but the filter is installed from thread %d (%s)", ld.Sched.TidBefore, fc[0].Tid, desc)
		}
	} else {
		// not requested: the bit is left as it was
		bef := map[int]int{}
		for _, s := range before[0].Status {
			bef[s.Tid] = s.NNP
		}
		for _, s := range after[0].Status {
			if old, ok := bef[s.Tid]; ok && old != s.NNP {
				return res, fmt.Errorf("no_new_privs was not requested, but the bit of thread %d changed %d -> %d", s.Tid, old, s.NNP)
			}
			if s.NNP != 0 {
				return res, fmt.Errorf("no_new_privs was not requested, but thread %d has the bit set", s.Tid)
			}
		}
		for _, cap := range fc {
			if cap.NNP != 0 {
				return res, fmt.Errorf("no_new_privs was not requested, but the installing thread has the bit set")
			}
		}
		if c.Uid != 0 {
			if ld.Nil {
				return res, fmt.Errorf("unprivileged load without no_new_privs returned nil")
			}
			for _, s := range after[0].Status {
				if s.Seccomp != 0 {
					return res, fmt.Errorf("unprivileged load without no_new_privs failed, but thread %d has Seccomp=%d", s.Tid, s.Seccomp)
				}
			}
			res.Classes = append(res.Classes, "unprivileged-load-refused")
		} else if !ld.Nil {
			return res, fmt.Errorf("privileged load without no_new_privs failed: %s", ld.Err)
		}
	}
	if c.Strace {
		// order and thread of the two system calls at the boundary
		var calls []kchild.SysCall
		for _, s := range rr.Strace {
			if s.Name == "seccomp" || (s.Name == "prctl" && len(s.Args) > 0 && strings.Contains(s.Args[0], "PR_SET_NO_NEW_PRIVS")) {
				calls = append(calls, s)
			}
		}
		if c.NNP {
			if len(calls) != 2 || calls[0].Name != "prctl" || calls[1].Name != "seccomp" {
				return res, fmt.Errorf("strace: expected prctl(PR_SET_NO_NEW_PRIVS) followed by seccomp, saw %v", calls)
			}
			if calls[0].Tid != calls[1].Tid {
				return res, fmt.Errorf("strace: prctl(PR_SET_NO_NEW_PRIVS) ran on thread %d, seccomp on thread %d (%s)", calls[0].Tid, calls[1].Tid, desc)
			}
		} else {
			for _, s := range calls {
				if s.Name == "prctl" {
					return res, fmt.Errorf("strace: prctl(PR_SET_NO_NEW_PRIVS) was called although not requested")
				}
			}
		}
		res.Classes = append(res.Classes, "strace-order-and-thread")
	}
	res.NonTrivial = c.Uid != 0 && c.NNP && perturbed && !c.Locked && ce[0].Migrated
	if res.NonTrivial {
		res.Classes = append(res.Classes, "unprivileged+nnp+migrating-perturbation")
	}
	return res, nil
}

func TestC11NoNewPrivs(t *testing.T) {
	ev.Prop(t, "C11", "load", drawC11, checkC11)
	if c11Stats.perturbed > 20 && c11Stats.migrated*4 < c11Stats.perturbed {
		ev.Note("C11", "control goroutine migrated in only %d of %d perturbed cases", c11Stats.migrated, c11Stats.perturbed)
	}
	ev.Count("C11", "perturbed-cases", c11Stats.perturbed)
	ev.Count("C11", "perturbed-cases-with-migrating-control", c11Stats.migrated)
}
