package props

import (
	"encoding/json"
	"fmt"
	"strings"
	"testing"
	"verif/harness/internal/gen"
	"verif/harness/internal/spec"

	"pgregory.net/rapid"

	"verif/harness/internal/ev"
	"verif/harness/internal/kchild"
	"verif/harness/internal/kjob"
)

// C11 — no_new_privs is set iff requested, before install, on the installing thread.

type c11Case struct {
	Uid        int        `json:"uid"`
	NNP        bool       `json:"nnp"`
	Flag       uint32     `json:"flag"`
	Sched      kjob.Sched `json:"sched"`
	Spinners   int        `json:"spinners"`
	GOMAXPROCS int        `json:"gomaxprocs"`
	Locked     bool       `json:"locked"` // the caller itself already holds its thread
	Prior      int        `json:"prior"`  // earlier loads (no_new_privs, no thread-sync) on other, pre-existing locked threads
	Strace     bool       `json:"strace"`
	// Own: what happened on the calling thread itself before (Locked callers only): "prior-no-nnp" = as root it loaded
	// a filter without the bit (filter mode, bit 0); "prior-nnp" = it loaded one with the bit; "prctl-denied" = as root,
	// an enclosing filter answers EPERM to prctl(PR_SET_NO_NEW_PRIVS): a requested bit cannot be set, so nothing may
	// be installed.
	Own string `json:"own,omitempty"`
	// PreNNP (unlocked callers with NNP requested): the calling goroutine sets the bit itself right before the load, on
	// whatever thread it runs; the load may be resumed on another thread that does not have it
	PreNNP bool `json:"pre_nnp,omitempty"`
	// Uname26: the process reports a 2.6 kernel release (UNAME26 personality): what uname says is no input of the load
	Uname26 bool `json:"uname26,omitempty"`
	// AllowOnly: the policy loaded allows everything (default allow, one group with action allow): a valid filter like
	// any other, the request for the bit is honoured all the same
	AllowOnly bool `json:"allow_only,omitempty"`
}

func drawC11(t *rapid.T) c11Case {
	c := c11Case{
		NNP:        rapid.IntRange(0, 2).Draw(t, "nnp") != 0,
		Flag:       uint32(rapid.IntRange(0, 3).Draw(t, "flag")),
		Spinners:   []int{0, 2, 4, 8, 8}[rapid.IntRange(0, 4).Draw(t, "spinners")],
		GOMAXPROCS: []int{1, 2, 4}[rapid.IntRange(0, 2).Draw(t, "gomaxprocs")],
		Locked:     rapid.IntRange(0, 5).Draw(t, "locked") == 0,
		Strace:     rapid.IntRange(0, 9).Draw(t, "strace") == 0,
	}
	if rapid.Bool().Draw(t, "unprivileged") {
		c.Uid = 65534
	}
	switch rapid.IntRange(0, 4).Draw(t, "perturbation") {
	case 0:
	case 1:
		c.Sched.Gosched = rapid.IntRange(1, 100).Draw(t, "gosched")
	case 2:
		c.Sched.SleepUs = rapid.IntRange(100, 3000).Draw(t, "sleepUs")
	case 3:
		c.Sched.Syscalls = rapid.IntRange(1, 8).Draw(t, "syscalls")
	default:
		c.Sched = kjob.Sched{Gosched: rapid.IntRange(1, 60).Draw(t, "gosched"), SleepUs: rapid.IntRange(0, 1500).Draw(t, "sleepUs"), Syscalls: rapid.IntRange(0, 4).Draw(t, "syscalls")}
	}
	if rapid.IntRange(0, 3).Draw(t, "withPrior") == 0 {
		// a history: other threads loaded filters of their own before; the bit is per thread
		c.Prior = rapid.IntRange(1, 2).Draw(t, "prior")
		c.Flag &^= 1 // a thread-sync would be refused because of the divergent filters, which is not C11's subject
	}
	if rapid.IntRange(0, 3).Draw(t, "withOwn") == 0 {
		c.Locked, c.Strace = true, false
		c.Own = []string{"prior-no-nnp", "prior-nnp", "prctl-denied", "seccomp-enosys", "strict-probe-denied", "seccomp-einval-log", "seccomp-einval-log", "action-avail-denied"}[rapid.IntRange(0, 7).Draw(t, "own")]
		if c.Own != "prior-nnp" {
			c.Uid = 0
		}
		if c.Own == "seccomp-enosys" && rapid.Bool().Draw(t, "enosysFlag0") {
			c.Flag = 0
		}
		if c.Own == "seccomp-einval-log" {
			// an ordinary goroutine in a busy process; the kernel (here: an enclosing filter) refuses the log flag
			c.Locked, c.Prior = false, 0
			c.Flag |= 2
			c.GOMAXPROCS, c.Spinners = 4, 8
		}
	}
	if !c.Locked && c.NNP && c.Own == "" && rapid.IntRange(0, 2).Draw(t, "preNNP") == 0 {
		c.PreNNP, c.Strace = true, false
	}
	if c.Sched != (kjob.Sched{}) && c.Spinners < 2*c.GOMAXPROCS {
		// keep every P busy, otherwise the descheduled goroutine simply resumes where it was
		c.Spinners = 2 * c.GOMAXPROCS
	}
	c.Uname26 = rapid.IntRange(0, 5).Draw(t, "uname26") == 0
	c.AllowOnly = c.Own != "seccomp-einval-log" && rapid.IntRange(0, 5).Draw(t, "allowOnly") == 0
	return c
}

var c11Stats struct{ perturbed, migrated int }

func checkC11(raw json.RawMessage) (ev.Result, error) {
	var c c11Case
	if err := json.Unmarshal(raw, &c); err != nil {
		return ev.Result{}, ev.Inconclusivef("bad case: %v", err)
	}
	if hostArchName() != "x86_64" {
		return ev.Result{}, ev.Inconclusivef("kernel checks are set up for an x86_64 host")
	}
	thread := -1
	job := &kjob.Job{GOMAXPROCS: c.GOMAXPROCS, Uname26: c.Uname26}
	// all command threads exist before any load: thread 0 is the (optionally) locked caller, 1.. carry the prior loads
	job.Steps = append(job.Steps, kjob.Step{Op: "mkthreads", N: 1 + c.Prior})
	if c.Locked {
		thread = 0
	}
	sched := c.Sched
	job.Steps = append(job.Steps, kjob.Step{Op: "spinners", N: c.Spinners})
	for i := 0; i < c.Prior; i++ {
		pp := c10Policy()
		pp.Groups[0].Names = []string{[]string{"getuid", "getgid"}[i%2]}
		job.Steps = append(job.Steps, kjob.Step{Op: "load", Thread: 1 + i, Filter: &kjob.FilterSpec{Policy: pp, NNP: true, Flag: 0, HostArch: true}})
	}
	stOwn := len(job.Steps)
	if c.Own != "" && !c.Locked && c.Own != "seccomp-einval-log" {
		return ev.Result{}, ev.Inconclusivef("own-thread history needs a locked caller")
	}
	loadPolicy := c10Policy()
	if c.AllowOnly {
		loadPolicy = spec.Policy{Arch: "x86_64", Default: actAllow, Groups: []spec.Group{{Action: actAllow, Names: []string{"getppid", "getuid"}}}}
	}
	switch c.Own {
	case "prior-no-nnp", "prior-nnp":
		pp := c10Policy()
		pp.Groups[0].Names = []string{"getegid"}
		job.Steps = append(job.Steps, kjob.Step{Op: "load", Thread: 0, Filter: &kjob.FilterSpec{Policy: pp, NNP: c.Own == "prior-nnp", Flag: 0, HostArch: true}})
	case "prctl-denied":
		job.Steps = append(job.Steps, kjob.Step{Op: "outer-deny-nnp-thread", Thread: 0})
	case "strict-probe-denied":
		// as root and without touching the bit: an enclosing filter refuses seccomp(SECCOMP_SET_MODE_STRICT) - a support
		// probe would say "unsupported" - while filters can be installed normally. A requested bit must be set all the same.
		job.Steps = append(job.Steps, kjob.Step{Op: "outer-deny-strict-thread", Thread: 0})
	case "action-avail-denied":
		// as root and without touching the bit: an enclosing filter refuses seccomp(SECCOMP_GET_ACTION_AVAIL) - a kernel
		// before 4.14, or a container profile that knows the two install operations only - and the policy uses the log
		// action, the one a loader might ask the kernel about. Filters install normally; a requested bit is set all the same.
		job.Steps = append(job.Steps, kjob.Step{Op: "outer-deny-avail-thread", Thread: 0})
		loadPolicy = spec.Policy{Arch: "x86_64", Default: actAllow, Groups: []spec.Group{{Action: actErrno, Names: []string{"getppid"}}, {Action: actLog, Names: []string{"getuid"}}}}
	case "seccomp-enosys":
		// as root and without touching the bit: on the calling thread seccomp(2) answers ENOSYS (old kernel, container
		// profile). Nothing can be installed through it; the bit must not be set unless requested.
		job.Steps = append(job.Steps, kjob.Step{Op: "outer-enosys-thread-nonnp", Thread: 0})
	case "seccomp-einval-log":
		// as root and without touching the bit: on every thread seccomp(2) answers EINVAL to the log flag (a kernel
		// before 4.14). Whatever LoadFilter does about that - fail, or try again differently - every attempt to install
		// happens on a thread that carries the requested bit. The caller is an ordinary goroutine of a process whose other
		// goroutines keep stopping the world, and the policy is a long one, so a goroutine that is not pinned for the
		// whole call does not stay on its thread.
		job.Steps = append(job.Steps, kjob.Step{Op: "outer-einval-log-nonnp"})
		job.Steps = append(job.Steps, kjob.Step{Op: "churn", N: 2})
		loadPolicy = c11LongPolicy()
	}
	stControl := len(job.Steps)
	job.Steps = append(job.Steps, kjob.Step{Op: "control", Sched: &sched})
	stBefore := len(job.Steps)
	job.Steps = append(job.Steps, kjob.Step{Op: "allstatus"})
	stLoad := len(job.Steps)
	job.Steps = append(job.Steps, kjob.Step{Op: "load", Thread: thread, Sched: &sched,
		Filter: &kjob.FilterSpec{Policy: loadPolicy, NNP: c.NNP, Flag: c.Flag, HostArch: true, PreNNP: c.PreNNP && c.NNP && !c.Locked}})
	job.Steps = append(job.Steps, kjob.Step{Op: "stop-spinners"})
	stAfter := len(job.Steps)
	job.Steps = append(job.Steps, kjob.Step{Op: "allstatus"})
	rr, err := kchild.Run(job, kchild.RunOpts{Uid: c.Uid, Strace: c.Strace, Timeout: 60e9})
	if err != nil {
		return ev.Result{}, ev.Inconclusivef("%v", err)
	}
	if rr.TimedOut || rr.Signaled || !rr.Done() {
		return ev.Result{}, ev.Inconclusivef("child did not finish (timeout %v, signal %v, exit %d, stderr %q)", rr.TimedOut, rr.Signal, rr.Exit, clip(rr.Stderr, 300))
	}
	le := rr.Find(stLoad, "load")
	ce := rr.Find(stControl, "control")
	before, after := rr.Find(stBefore, "status"), rr.Find(stAfter, "status")
	for i := 0; i < c.Prior; i++ {
		if pl := rr.Find(2+i, "load"); len(pl) != 1 || !pl[0].Nil {
			return ev.Result{}, ev.Inconclusivef("prior load %d did not succeed", i)
		}
	}
	switch c.Own {
	case "prior-no-nnp", "prior-nnp":
		if pl := rr.Find(stOwn, "load"); len(pl) != 1 || !pl[0].Nil {
			return ev.Result{}, ev.Inconclusivef("the earlier load on the calling thread did not succeed")
		}
	case "prctl-denied":
		if oe := rr.Find(stOwn, "outer-deny-nnp"); len(oe) != 1 || oe[0].Err != "" {
			return ev.Result{}, ev.Inconclusivef("could not install the prctl-denying filter")
		}
	case "strict-probe-denied":
		if oe := rr.Find(stOwn, "outer-deny-strict"); len(oe) != 1 || oe[0].Err != "" {
			return ev.Result{}, ev.Inconclusivef("could not install the filter that refuses the strict-mode probe")
		}
	case "action-avail-denied":
		if oe := rr.Find(stOwn, "outer-deny-avail"); len(oe) != 1 || oe[0].Err != "" {
			return ev.Result{}, ev.Inconclusivef("could not install the filter that refuses the action-availability probe")
		}
	case "seccomp-enosys":
		if oe := rr.Find(stOwn, "outer-enosys"); len(oe) != 1 || oe[0].Err != "" {
			return ev.Result{}, ev.Inconclusivef("could not install the ENOSYS-answering filter")
		}
	case "seccomp-einval-log":
		if oe := rr.Find(stOwn, "outer-einval-log"); len(oe) != 1 || oe[0].Err != "" {
			return ev.Result{}, ev.Inconclusivef("could not install the filter that refuses the log flag")
		}
	}
	if len(le) != 1 || len(ce) != 1 || len(before) != 1 || len(after) != 1 {
		return ev.Result{}, ev.Inconclusivef("events missing")
	}
	ld := le[0]
	perturbed := c.Sched != (kjob.Sched{})
	res := ev.Result{Classes: []string{fmt.Sprintf("uid:%d/nnp:%v/flag:%d", c.Uid, c.NNP, c.Flag), fmt.Sprintf("uid:%d/nnp:%v", c.Uid, c.NNP)}}
	if perturbed && !c.Locked {
		c11Stats.perturbed++
		if ce[0].Migrated {
			c11Stats.migrated++
			res.Classes = append(res.Classes, "control-goroutine-migrated")
		}
	}
	desc := fmt.Sprintf("uid %d, no_new_privs=%v, flags %#x, perturbation %+v with %d spinners, GOMAXPROCS %d, %d earlier load(s) on other threads", c.Uid, c.NNP, c.Flag, c.Sched, c.Spinners, c.GOMAXPROCS, c.Prior)
	if c.Prior > 0 {
		res.Classes = append(res.Classes, "after-loads-on-other-threads")
	}
	if c.PreNNP {
		res.Classes = append(res.Classes, "caller-set-the-bit-itself-right-before")
	}
	if c.Uname26 {
		desc += ", UNAME26 personality"
		res.Classes = append(res.Classes, "uname-reports-2.6")
	}
	if c.AllowOnly {
		desc += ", policy that allows everything"
		res.Classes = append(res.Classes, "policy-that-allows-everything")
	}
	if c.Own != "" {
		desc += ", calling thread: " + c.Own
		res.Classes = append(res.Classes, "calling-thread:"+c.Own, fmt.Sprintf("calling-thread:%s/nnp:%v", c.Own, c.NNP))
	}
	if ld.Panic != "" {
		return res, fmt.Errorf("LoadFilter panicked: %s", ld.Panic)
	}
	var fc []kjob.Capture
	for _, cap := range ld.Captures {
		if cap.Op == 1 {
			fc = append(fc, cap)
		}
	}
	if c.NNP && c.Own == "prctl-denied" {
		// the bit cannot be set: installing a filter all the same would install it without the requested bit
		for _, cap := range fc {
			if cap.NNP != 1 {
				return res, fmt.Errorf("no_new_privs was requested and prctl(PR_SET_NO_NEW_PRIVS) is answered EPERM, yet LoadFilter went on to install the filter with the bit unset (returned nil: %v; %s)", ld.Nil, desc)
			}
		}
		if ld.Nil {
			return res, fmt.Errorf("no_new_privs was requested but could not be set (prctl answers EPERM); LoadFilter returned nil (%s)", desc)
		}
		bef := map[int]int{}
		for _, s := range before[0].Status {
			bef[s.Tid] = s.Filters
		}
		for _, s := range after[0].Status {
			if old, ok := bef[s.Tid]; ok && old != s.Filters {
				return res, fmt.Errorf("LoadFilter failed (%s), but Seccomp_filters of thread %d went %d -> %d (%s)", ld.Err, s.Tid, old, s.Filters, desc)
			}
		}
	} else if c.NNP && c.Own == "seccomp-einval-log" {
		for k, cap := range fc {
			if cap.NNP != 1 {
				return res, fmt.Errorf("no_new_privs was requested; installation attempt %d of %d (flags %#x) is made by thread %d, which does not have the bit at that moment (the kernel refuses the log flag with EINVAL; LoadFilter returned nil: %v, %q; %s)",
					k+1, len(fc), cap.Flags, cap.Tid, ld.Nil, ld.Err, desc)
			}
		}
		if !ld.Nil && !strings.Contains(ld.Err, "invalid argument") {
			return res, fmt.Errorf("no_new_privs was requested and the kernel refuses only the log flag (EINVAL), but LoadFilter failed with %q (%s)", ld.Err, desc)
		}
		if ld.Nil {
			for _, s := range after[0].Status {
				if s.Filters >= 2 && s.NNP != 1 {
					return res, fmt.Errorf("no_new_privs was requested and LoadFilter returned nil, but thread %d carries the new filter without the bit (%s)", s.Tid, desc)
				}
			}
			res.Classes = append(res.Classes, "log-flag-refused:loaded-all-the-same")
		} else {
			res.Classes = append(res.Classes, "log-flag-refused:load-failed-with-EINVAL")
		}
	} else if c.NNP && c.Own == "seccomp-enosys" && !ld.Nil {
		// seccomp(2) is not available: the load cannot succeed; the bit may have been set on the way (it was requested)
		res.Classes = append(res.Classes, "load-failed-because-seccomp-is-unavailable")
	} else if c.NNP {
		// requested: the load succeeds in every configuration, the bit is set before and on the installing thread
		if !ld.Nil {
			return res, fmt.Errorf("no_new_privs was requested, but LoadFilter failed (%s): %s [schedule point: %+v, control goroutine migrated: %v]", desc, ld.Err, ld.Sched, ce[0].Migrated)
		}
		if len(fc) != 1 {
			return res, fmt.Errorf("LoadFilter issued %d filter installations, want exactly 1", len(fc))
		}
		if fc[0].NNP != 1 {
			return res, fmt.Errorf("at the moment of installation the installing thread (tid %d) does not have no_new_privs set although it was requested (%s)", fc[0].Tid, desc)
		}
		if ld.Sched != nil && ld.Sched.TidBefore != fc[0].Tid {
			return res, fmt.Errorf("no_new_privs was set on thread %d but the filter is installed from thread %d (%s)", ld.Sched.TidBefore, fc[0].Tid, desc)
		}
	} else {
		// not requested: the bit is left as it was
		bef := map[int]int{}
		for _, s := range before[0].Status {
			bef[s.Tid] = s.NNP
		}
		// (a thread-sync'ed installation by a thread that already has the bit hands the bit to the other threads: that is
		// the kernel's doing, see seccomp_sync_threads)
		callerHadBit := c.Own == "prior-nnp"
		inherited := func(tid int) bool { return callerHadBit && c.Flag&1 != 0 && ld.Nil && tid != ld.Tid }
		for _, s := range after[0].Status {
			if old, ok := bef[s.Tid]; ok && old != s.NNP && !inherited(s.Tid) {
				return res, fmt.Errorf("no_new_privs was not requested, but the bit of thread %d changed %d -> %d (%s)", s.Tid, old, s.NNP, desc)
			}
			if old, ok := bef[s.Tid]; s.NNP != 0 && !(ok && old == 1) && !inherited(s.Tid) {
				return res, fmt.Errorf("no_new_privs was not requested, but thread %d has the bit set (%s)", s.Tid, desc)
			}
		}
		for _, cap := range fc {
			if old, ok := bef[cap.Tid]; ok && cap.NNP != old {
				return res, fmt.Errorf("no_new_privs was not requested, but at the moment of installation the bit of the installing thread is %d, before the call it was %d (%s)", cap.NNP, old, desc)
			}
			if _, ok := bef[cap.Tid]; !ok && cap.NNP != 0 {
				return res, fmt.Errorf("no_new_privs was not requested, but the installing thread has the bit set (%s)", desc)
			}
		}
		if c.Uid != 0 && callerHadBit {
			// the thread carries the bit from before: the kernel accepts the load, nothing is claimed
			res.Classes = append(res.Classes, "unprivileged-load-with-inherited-bit(no-claim)")
		} else if c.Uid != 0 {
			if ld.Nil {
				return res, fmt.Errorf("unprivileged load without no_new_privs returned nil")
			}
			befSec := map[int]int{}
			for _, s := range before[0].Status {
				befSec[s.Tid] = s.Filters
			}
			for _, s := range after[0].Status {
				if old, ok := befSec[s.Tid]; (ok && s.Filters != old) || (!ok && s.Seccomp != 0 && c.Prior == 0) {
					return res, fmt.Errorf("unprivileged load without no_new_privs failed, but thread %d has Seccomp=%d Seccomp_filters=%d", s.Tid, s.Seccomp, s.Filters)
				}
			}
			res.Classes = append(res.Classes, "unprivileged-load-refused")
		} else if !ld.Nil && c.Own != "seccomp-enosys" && !(c.Own == "seccomp-einval-log" && strings.Contains(ld.Err, "invalid argument")) {
			return res, fmt.Errorf("privileged load without no_new_privs failed: %s", ld.Err)
		}
	}
	if c.Strace && !c.PreNNP {
		// order and thread of the two system calls at the boundary
		var calls []kchild.SysCall
		for _, s := range rr.Strace {
			// only installations count (a support probe in strict mode is not one)
			if (s.Name == "seccomp" && len(s.Args) > 0 && s.Args[0] == "0x1") || (s.Name == "prctl" && len(s.Args) > 0 && strings.Contains(s.Args[0], "PR_SET_NO_NEW_PRIVS")) {
				calls = append(calls, s)
			}
		}
		// the prior loads come first (one prctl and one seccomp each); the observed load is last
		if len(calls) < 2*c.Prior {
			return res, ev.Inconclusivef("strace saw only %d calls", len(calls))
		}
		calls = calls[2*c.Prior:]
		if c.NNP {
			if len(calls) != 2 || calls[0].Name != "prctl" || calls[1].Name != "seccomp" {
				return res, fmt.Errorf("strace: expected prctl(PR_SET_NO_NEW_PRIVS) followed by seccomp, saw %v (%s)", calls, desc)
			}
			if calls[0].Tid != calls[1].Tid {
				return res, fmt.Errorf("strace: prctl(PR_SET_NO_NEW_PRIVS) ran on thread %d, seccomp on thread %d (%s)", calls[0].Tid, calls[1].Tid, desc)
			}
		} else {
			for _, s := range calls {
				if s.Name == "prctl" {
					return res, fmt.Errorf("strace: prctl(PR_SET_NO_NEW_PRIVS) was called although not requested")
				}
			}
		}
		res.Classes = append(res.Classes, "strace-order-and-thread")
	}
	res.NonTrivial = c.Uid != 0 && c.NNP && perturbed && !c.Locked && ce[0].Migrated
	if res.NonTrivial {
		res.Classes = append(res.Classes, "unprivileged+nnp+migrating-perturbation")
	}
	return res, nil
}

func TestC11NoNewPrivs(t *testing.T) {
	ev.Prop(t, "C11", "load", drawC11, checkC11)
	if c11Stats.perturbed > 20 && c11Stats.migrated*4 < c11Stats.perturbed {
		ev.Note("C11", "control goroutine migrated in only %d of %d perturbed cases", c11Stats.migrated, c11Stats.perturbed)
	}
	ev.Count("C11", "perturbed-cases", c11Stats.perturbed)
	ev.Count("C11", "perturbed-cases-with-migrating-control", c11Stats.migrated)
}

// c11LongPolicy: a valid policy of a few thousand instructions (allow everything; errno only for calls whose sixth
// argument has one of a few improbable values), so that compiling it takes a while.
var c11LongPolicyCache *spec.Policy

func c11LongPolicy() spec.Policy {
	if c11LongPolicyCache != nil {
		return *c11LongPolicyCache
	}
	p := spec.Policy{Arch: "x86_64", Default: actAllow, Groups: []spec.Group{{Action: actErrno}}}
	names := gen.Universe("x86_64")
	for i := 0; i < len(names) && i < 400; i++ {
		ce := spec.CondEntry{Name: names[i]}
		for k := 0; k < 4; k++ {
			ce.Conds = append(ce.Conds, spec.Cond{Arg: 5, Op: "Equal", Val: 0xdeadbeef00000000 + uint64(i)<<8 + uint64(k)})
		}
		try := p
		try.Groups = []spec.Group{{Action: actErrno, Conds: append(append([]spec.CondEntry(nil), p.Groups[0].Conds...), ce)}}
		cp, err, pan := compilePolicy(&try)
		if err != nil || pan != nil || len(cp.insts) > 3600 {
			break
		}
		p = try
	}
	c11LongPolicyCache = &p
	return p
}
