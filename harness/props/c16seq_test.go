package props

import (
	"encoding/json"
	"fmt"
	"os"
	"sort"
	"strings"
	"testing"

	"pgregory.net/rapid"

	"verif/harness/internal/ev"
	"verif/harness/internal/sitemodel"
)

// C16, sequences — "a syscall number is attributed only from instructions of the same function as the syscall site":
// in particular not from instructions of a text that was extracted earlier in the same process. The result of an
// extraction has to be a function of the text alone. A case is a main text and an earlier text; the main text is
// extracted, then the earlier one, then the main one twice more: all three results for the main text must be equal
// (they are judged against the site model by unit extraction; here only their equality counts). The main text may
// start in the middle of a function (no TEXT line in front of its first instructions: what is left when the head of a
// listing is cut off), the earlier text may end in the middle of one (a number load that no site follows).

type c16SeqCase struct {
	Main     sitemodel.Listing `json:"main"`
	Prev     sitemodel.Listing `json:"prev"`
	Seed     uint64            `json:"seed"`
	Headless bool              `json:"headless"`  // the main text lost the TEXT line of its first function
	CutPrev  int               `json:"cut_prev"`  // > 0: the earlier text is cut this many lines before its end
	PrevLoad bool              `json:"prev_load"` // the earlier text ends with a bare number load
}

func drawC16Seq(t *rapid.T) c16SeqCase {
	c := c16SeqCase{Main: drawListing(t), Seed: rapid.Uint64().Draw(t, "seed")}
	c.Prev = drawListing(t)
	c.Prev.Arch = c.Main.Arch
	if rapid.IntRange(0, 2).Draw(t, "otherArch") == 0 {
		c.Prev.Arch = map[string]string{"x86_64": "i386", "i386": "x86_64"}[c.Main.Arch]
	}
	c.Headless = rapid.IntRange(0, 2).Draw(t, "headless") != 0
	if rapid.Bool().Draw(t, "cutPrev") {
		c.CutPrev = rapid.IntRange(1, 6).Draw(t, "cutPrevLines")
	}
	c.PrevLoad = rapid.Bool().Draw(t, "prevLoad")
	if c.Headless && len(c.Main.Funcs) > 0 {
		// make sure the headless part has a site that depends on what came before it: a bare site first
		trig := "SYSCALL"
		if c.Main.Arch == "i386" {
			trig = "INT $0x80"
		}
		f := &c.Main.Funcs[0]
		f.Items = append([]sitemodel.Item{{Kind: sitemodel.BareSite, Instr: trig}}, f.Items...)
	}
	return c
}

func c16SortedKeys(res []string) []string {
	out := append([]string(nil), res...)
	sort.Strings(out)
	return out
}

func checkC16Seq(raw json.RawMessage) (ev.Result, error) {
	var c c16SeqCase
	if err := json.Unmarshal(raw, &c); err != nil {
		return ev.Result{}, ev.Inconclusivef("bad case: %v", err)
	}
	dir, err := os.MkdirTemp(os.Getenv("VERIF_TMP"), "c16s")
	if err != nil {
		return ev.Result{}, ev.Inconclusivef("%v", err)
	}
	defer os.RemoveAll(dir)
	mainText, _ := sitemodel.Render(&c.Main, c.Seed)
	if c.Headless {
		if i := strings.Index(mainText, "\n"); i >= 0 && strings.HasPrefix(mainText, "TEXT") {
			mainText = mainText[i+1:]
		}
	}
	prevText, _ := sitemodel.Render(&c.Prev, c.Seed^0x5bd1e995)
	if c.CutPrev > 0 {
		lines := strings.Split(strings.TrimRight(prevText, "\n"), "\n")
		if len(lines) > c.CutPrev {
			lines = lines[:len(lines)-c.CutPrev]
		}
		prevText = strings.Join(lines, "\n") + "\n"
	}
	if c.PrevLoad {
		if c.Prev.Arch == "i386" {
			prevText += "  f.go:9\t0x80490a0\tb83c000000\tMOVL $0x3c, AX\t\n"
		} else {
			prevText += "  f.go:9\t0x4590a0\tb83c000000\tMOVL $0x3c, AX\t\n"
		}
	}
	mp, err := writeTemp(dir, "main.txt", mainText)
	if err != nil {
		return ev.Result{}, ev.Inconclusivef("%v", err)
	}
	pp, err := writeTemp(dir, "prev.txt", prevText)
	if err != nil {
		return ev.Result{}, ev.Inconclusivef("%v", err)
	}
	res := ev.Result{Classes: []string{"kind:sequence", "parser:" + c.Main.Arch}}
	run := func(arch, path string) ([]string, string, error) {
		r, err, pan := extract(arch, path)
		if pan != nil {
			return nil, "", fmt.Errorf("extraction panicked: %v", pan)
		}
		if err != nil {
			return nil, "error: " + err.Error(), nil
		}
		var ks []string
		for _, s := range r {
			ks = append(ks, fmt.Sprintf("%d/%s@%s", s.Num, s.Name, s.Caller))
		}
		return c16SortedKeys(ks), "", nil
	}
	r1, e1, err := run(c.Main.Arch, mp)
	if err != nil {
		return res, err
	}
	if _, _, err := run(c.Prev.Arch, pp); err != nil {
		return res, err
	}
	r2, e2, err := run(c.Main.Arch, mp)
	if err != nil {
		return res, err
	}
	r3, e3, err := run(c.Main.Arch, mp)
	if err != nil {
		return res, err
	}
	if e1 != e2 || e2 != e3 {
		return res, fmt.Errorf("the same text is extracted with outcome %q, after another text was extracted with %q, and once more with %q", e1, e2, e3)
	}
	if fmt.Sprint(r1) != fmt.Sprint(r2) {
		return res, fmt.Errorf("extraction of the same %s text gives %v; after another text (%s, %d bytes, ending %q) was extracted in between it gives %v: numbers are attributed from instructions of an earlier text",
			c.Main.Arch, r1, c.Prev.Arch, len(prevText), clip(prevText[max(0, len(prevText)-80):], 80), r2)
	}
	if fmt.Sprint(r2) != fmt.Sprint(r3) {
		return res, fmt.Errorf("two extractions of the same text in a row differ: %v, then %v", r2, r3)
	}
	if c.Headless {
		res.Classes = append(res.Classes, "main-text-starts-inside-a-function")
	}
	if c.PrevLoad || c.CutPrev > 0 {
		res.Classes = append(res.Classes, "earlier-text-ends-inside-a-function")
	}
	if c.Prev.Arch == c.Main.Arch {
		res.Classes = append(res.Classes, "earlier-text-for-the-same-parser")
	}
	res.NonTrivial = c.Headless && (c.PrevLoad || c.CutPrev > 0) && c.Prev.Arch == c.Main.Arch
	res.Sub = 4
	return res, nil
}

func TestC16Sequences(t *testing.T) {
	ev.Prop(t, "C16", "sequence", drawC16Seq, checkC16Seq)
}
