package props

import (
	"encoding/hex"
	"encoding/json"
	"fmt"
	"syscall"
	"testing"

	"pgregory.net/rapid"

	"verif/harness/internal/cbpf"
	"verif/harness/internal/ev"
	"verif/harness/internal/gen"
	"verif/harness/internal/kchild"
	"verif/harness/internal/kjob"
	"verif/harness/internal/model"
	"verif/harness/internal/oracle"
	"verif/harness/internal/spec"
)

// C08 — the installed filter enforces the policy on the running kernel.

// Probe system calls: they ignore all six argument registers, never fail by
// themselves and are not used by the Go runtime.
var probeNames = []string{"getppid", "getuid", "geteuid", "getgid", "getegid", "getpgrp"}

var (
	actAllow = oracle.Const("SECCOMP_RET_ALLOW")
	actErrno = oracle.Const("SECCOMP_RET_ERRNO")
	actLog   = oracle.Const("SECCOMP_RET_LOG")
	actTrace = oracle.Const("SECCOMP_RET_TRACE")
	actKillP = oracle.Const("SECCOMP_RET_KILL_PROCESS")
)

func isProbe(n string) bool {
	for _, p := range probeNames {
		if p == n {
			return true
		}
	}
	return false
}

// allowRest lists the whole table except the probes.
func allowRest(archName string) spec.Group {
	g := spec.Group{Action: actAllow}
	for _, n := range gen.Universe(archName) {
		if !isProbe(n) {
			g.Names = append(g.Names, n)
		}
	}
	return g
}

type c08Case struct {
	GOARCH string       `json:"goarch"` // amd64 / 386
	Policy spec.Policy  `json:"policy"`
	NNP    bool         `json:"nnp"`
	Flag   uint32       `json:"flag"`
	Events []spec.Event `json:"events"`
	Strace bool         `json:"strace"`
	// Prior: before the load, the second thread installs a filter of its own (allowing everything, no thread-sync).
	// A thread-sync load is then refused by the kernel (divergent filter): LoadFilter may only return nil if the
	// policy is in force all the same; a load without thread-sync succeeds and concerns the loading thread only.
	Prior bool `json:"prior,omitempty"`
	// PriorSame (with Prior): the filter the second thread installs first is this very policy, with the same flag word
	// and no_new_privs request: an equal program was handed to the kernel before, by another thread. The load under
	// test has to install its filter all the same.
	PriorSame bool `json:"prior_same,omitempty"`
	// Both: one probe syscall is listed with AND without conditions in one group - a defect the compiler has to refuse.
	// If LoadFilter accepts the policy all the same, the group lists the syscall by name: every call of it gets the
	// group's action, whatever the arguments.
	Both bool `json:"both,omitempty"`
	// OpCase != 0: the operation names of the policy handed to LoadFilter are written in another letter case. Refusing
	// them is fine; if the load succeeds they must mean the documented operations.
	OpCase uint64 `json:"op_case,omitempty"`
	// Reassembled: the Policy value that is loaded compiled and printed another policy before and was edited in place
	Reassembled bool `json:"reassembled,omitempty"`
}

func archOfGOARCH(g string) string {
	if g == "386" {
		return "i386"
	}
	return "x86_64"
}

// drawProbePolicy draws a policy that only decides about the probe syscalls;
// everything else is allowed (by default or by an allow group over the whole table).
func drawProbePolicy(t *rapid.T, archName string, actions []uint32, defaults []uint32) spec.Policy {
	p := gen.Policy(t, archName, gen.Opts{Profile: gen.Probes, Names: probeNames, Actions: actions, MaxGroups: 4, MaxInsns: 600})
	p.Default = defaults[rapid.IntRange(0, len(defaults)-1).Draw(t, "probeDefault")]
	if rapid.IntRange(0, 3).Draw(t, "longConditional") == 0 {
		// one probe with so many condition lists that its checks alone exceed 255 instructions
		// (unconditional bridges), followed by rules for other probes that are reached across them
		name := probeNames[rapid.IntRange(0, len(probeNames)-1).Draw(t, "longName")]
		g := spec.Group{Action: actions[rapid.IntRange(0, len(actions)-1).Draw(t, "longAction")]}
		nl := rapid.IntRange(11, 30).Draw(t, "longLists")
		for l := 0; l < nl; l++ {
			ce := spec.CondEntry{Name: name}
			nc := rapid.IntRange(4, 6).Draw(t, "longConds")
			for k := 0; k < nc; k++ {
				ce.Conds = append(ce.Conds, spec.Cond{Arg: uint32(k), Op: spec.Ops[rapid.IntRange(0, 7).Draw(t, "longOp")], Val: uint64(l*7+k) | uint64(rapid.IntRange(0, 3).Draw(t, "longHi"))<<32})
			}
			g.Conds = append(g.Conds, ce)
		}
		for _, other := range probeNames {
			if other != name && rapid.Bool().Draw(t, "longOther") {
				g.Conds = append(g.Conds, spec.CondEntry{Name: other, Conds: []spec.Cond{{Arg: 0, Op: "Equal", Val: 0xdeadbeef00000005}}})
			}
		}
		pos := rapid.IntRange(0, len(p.Groups)).Draw(t, "longPos")
		p.Groups = append(p.Groups[:pos:pos], append([]spec.Group{g}, p.Groups[pos:]...)...)
	}
	needRest := p.Default != actAllow && p.Default != actLog
	if needRest || rapid.IntRange(0, 3).Draw(t, "longProgram") == 0 {
		pos := rapid.IntRange(0, len(p.Groups)).Draw(t, "restPos")
		rest := allowRest(archName)
		p.Groups = append(p.Groups[:pos:pos], append([]spec.Group{rest}, p.Groups[pos:]...)...)
	}
	return p
}

// probeEvents expands events for the probe numbers only.
func probeEvents(p *spec.Policy, seed uint64, per int, bits32 bool) []spec.Event {
	// reduced policy: groups about probes only (equivalent for probe numbers)
	red := spec.Policy{Arch: p.Arch, Default: p.Default}
	for _, g := range p.Groups {
		if len(g.Names) > 50 {
			continue
		}
		red.Groups = append(red.Groups, g)
	}
	if len(red.Groups) == 0 {
		red.Groups = append(red.Groups, spec.Group{Action: p.Default})
	}
	probeNr := map[uint32]bool{}
	for _, n := range probeNames {
		nr, _ := model.Number(p.Arch, n)
		probeNr[nr] = true
	}
	var out []spec.Event
	for _, e := range gen.Events(&red, seed, gen.EventOpts{Own: true, PerNr: per}) {
		if !probeNr[e.Nr] {
			continue
		}
		if bits32 {
			for i := range e.Args {
				e.Args[i] &= 0xffffffff
			}
		}
		e.IP = 0
		out = append(out, e)
	}
	// every probe at least once
	r := gen.NewRng(seed ^ 0x5555)
	for _, n := range probeNames {
		nr, _ := model.Number(p.Arch, n)
		e := spec.Event{Arch: oracle.ArchID(p.Arch), Nr: nr}
		for i := range e.Args {
			e.Args[i] = r.U64()
			if bits32 {
				e.Args[i] &= 0xffffffff
			}
		}
		out = append(out, e)
	}
	return out
}

func drawC08(t *rapid.T) c08Case {
	c := c08Case{GOARCH: "amd64"}
	if rapid.IntRange(0, 3).Draw(t, "abi") == 0 {
		c.GOARCH = "386"
	}
	archName := archOfGOARCH(c.GOARCH)
	c.Policy = drawProbePolicy(t, archName, []uint32{actAllow, actErrno, actErrno, actLog, actTrace, actKillP},
		[]uint32{actAllow, actAllow, actErrno, actKillP, actLog, actTrace})
	c.NNP = rapid.Bool().Draw(t, "nnp")
	c.Flag = uint32(rapid.IntRange(0, 3).Draw(t, "flag"))
	evs := probeEvents(&c.Policy, rapid.Uint64().Draw(t, "eventSeed"), 2, c.GOARCH == "386")
	// cap and shuffle deterministically; keep kills rare enough that most probes run
	r := gen.NewRng(rapid.Uint64().Draw(t, "orderSeed"))
	for i := len(evs) - 1; i > 0; i-- {
		j := r.Intn(i + 1)
		evs[i], evs[j] = evs[j], evs[i]
	}
	if len(evs) > 60 {
		evs = evs[:60]
	}
	c.Events = evs
	c.Strace = rapid.IntRange(0, 9).Draw(t, "strace") == 0
	if rapid.IntRange(0, 11).Draw(t, "both") == 0 {
		// copy the name of a conditional entry into the names of its group
		for gi := range c.Policy.Groups {
			g := &c.Policy.Groups[gi]
			if len(g.Conds) > 0 && isProbe(g.Conds[0].Name) {
				dup := false
				for _, n := range g.Names {
					dup = dup || n == g.Conds[0].Name
				}
				if !dup {
					g.Names = append(append([]string(nil), g.Names...), g.Conds[0].Name)
					c.Both = true
					break
				}
			}
		}
	}
	if !c.Both && rapid.IntRange(0, 9).Draw(t, "opCase") == 0 {
		c.OpCase = rapid.Uint64Range(1, 1<<62).Draw(t, "opCaseSeed")
	}
	c.Prior = rapid.IntRange(0, 4).Draw(t, "prior") == 0
	c.PriorSame = c.Prior && rapid.Bool().Draw(t, "priorSame")
	c.Reassembled = rapid.IntRange(0, 5).Draw(t, "reassembled") == 0
	return c
}

func rawHex(prog []cbpf.Raw) string {
	buf := make([]byte, 0, 8*len(prog))
	for _, in := range prog {
		buf = append(buf, byte(in.Op), byte(in.Op>>8), in.Jt, in.Jf, byte(in.K), byte(in.K>>8), byte(in.K>>16), byte(in.K>>24))
	}
	return hex.EncodeToString(buf)
}

func baselineProbes(archName string) []kjob.Probe {
	var ps []kjob.Probe
	for _, n := range probeNames {
		nr, _ := model.Number(archName, n)
		ps = append(ps, kjob.Probe{Nr: nr})
	}
	return ps
}

// expectProbe compares one probe observation with the decision.
func expectProbe(want uint32, got kjob.ProbeResult, base kjob.ProbeResult, e spec.Event) error {
	switch want {
	case actAllow, actLog:
		if got.Errno != 0 || got.Ret != base.Ret {
			return fmt.Errorf("event %s: policy allows (%#x) but the call returned %d errno %d (unfiltered value %d)", fmtEvent(e), want, got.Ret, got.Errno, base.Ret)
		}
	case actErrno | oracle.Const("EPERM"):
		if got.Errno != int(syscall.EPERM) {
			return fmt.Errorf("event %s: policy answers errno but the call returned %d errno %d, want EPERM", fmtEvent(e), got.Ret, got.Errno)
		}
	case actTrace:
		if got.Errno != int(syscall.ENOSYS) {
			return fmt.Errorf("event %s: policy answers trace (no tracer => ENOSYS) but the call returned %d errno %d", fmtEvent(e), got.Ret, got.Errno)
		}
	default:
		return ev.Inconclusivef("unexpected decision %#x in a kernel run", want)
	}
	return nil
}

func checkC08(raw json.RawMessage) (ev.Result, error) {
	var c c08Case
	if err := json.Unmarshal(raw, &c); err != nil {
		return ev.Result{}, ev.Inconclusivef("bad case: %v", err)
	}
	if hostArchName() != "x86_64" {
		return ev.Result{}, ev.Inconclusivef("kernel checks are set up for an x86_64 host")
	}
	p := &c.Policy
	archName := archOfGOARCH(c.GOARCH)
	if p.Arch != archName {
		return ev.Result{}, ev.Inconclusivef("policy architecture %s does not match child ABI %s", p.Arch, c.GOARCH)
	}
	toLoad := p
	if c.OpCase != 0 {
		toLoad = mangleOps(p, c.OpCase)
	}
	cp, cerr, pan := compilePolicy(toLoad)
	if (c.Both || c.OpCase != 0) && pan == nil && cerr != nil {
		// refused, as it should be: nothing is installed, nothing to observe
		return ev.Result{Classes: []string{"defective-policy-refused(no-claim)"}}, nil
	}
	if pan != nil || cerr != nil {
		return ev.Result{}, fmt.Errorf("probe policy does not compile: %v %v", cerr, pan)
	}
	if err := cp.encode(); err != nil {
		return ev.Result{}, fmt.Errorf("program does not encode: %v", err)
	}
	var probes []kjob.Probe
	for _, e := range c.Events {
		probes = append(probes, kjob.Probe{Nr: e.Nr, Args: e.Args})
	}
	tsync := c.Flag&1 != 0
	steps := []kjob.Step{
		{Op: "mkthreads", N: 2},
		{Op: "probe", Thread: 0, Probes: baselineProbes(archName)},
	}
	o := 0 // shift of the step indices below
	if c.Prior {
		prior := spec.Policy{Arch: archName, Default: actAllow, Groups: []spec.Group{{Action: actAllow, Names: []string{"getpid"}}}}
		fs := &kjob.FilterSpec{Policy: prior, NNP: true, Flag: 0, HostArch: true}
		if c.PriorSame {
			fs = &kjob.FilterSpec{Policy: *toLoad, NNP: c.NNP, Flag: c.Flag, HostArch: true}
		}
		steps = append(steps, kjob.Step{Op: "load", Thread: 1, Filter: fs})
		o = 1
	}
	steps = append(steps,
		kjob.Step{Op: "load", Thread: 0, Filter: &kjob.FilterSpec{Policy: *toLoad, NNP: c.NNP, Flag: c.Flag, HostArch: true, Reassembled: c.Reassembled}},
		kjob.Step{Op: "allstatus"},
		kjob.Step{Op: "probe", Thread: 0, Probes: probes},
		kjob.Step{Op: "probe", Thread: 1, Probes: probes},
		kjob.Step{Op: "allstatus"},
	)
	job := &kjob.Job{Steps: steps}
	rr, err := kchild.Run(job, kchild.RunOpts{GOARCH: c.GOARCH, Strace: c.Strace})
	if err != nil {
		return ev.Result{}, ev.Inconclusivef("%v", err)
	}
	if rr.TimedOut {
		return ev.Result{}, ev.Inconclusivef("child timed out")
	}
	base := rr.Find(1, "probe")
	if len(base) != 1 || len(base[0].Results) != len(probeNames) {
		return ev.Result{}, ev.Inconclusivef("no baseline probe results (stderr %q)", clip(rr.Stderr, 300))
	}
	baseByNr := map[uint32]kjob.ProbeResult{}
	for i, n := range probeNames {
		nr, _ := model.Number(archName, n)
		baseByNr[nr] = base[0].Results[i]
		if base[0].Results[i].Errno != 0 {
			return ev.Result{}, ev.Inconclusivef("probe %s fails without any filter", n)
		}
	}
	if c.Prior {
		pl := rr.Find(2, "load")
		if len(pl) != 1 || !pl[0].Nil {
			return ev.Result{}, ev.Inconclusivef("the prior load on the second thread did not succeed")
		}
	}
	loads := rr.Find(2+o, "load")
	if len(loads) != 1 {
		if rr.Signaled && rr.Signal == syscall.SIGSYS && len(rr.Find(2+o, "begin:load")) == 1 {
			// the policy restricts nothing but the six probe syscalls; the loader itself issues none of them
			return ev.Result{}, fmt.Errorf("the child was killed by SIGSYS inside LoadFilter / before it could report: the installed filter (%d instructions) denies a system call that the policy allows", len(cp.raw))
		}
		if !rr.TimedOut && len(rr.Find(2+o, "begin:load")) == 1 {
			// The child announced the load and then fell silent or crashed without being killed by a probe:
			// its own system calls (write, futex, gettid ...) are denied, although the policy restricts
			// nothing but the six probe syscalls.
			return ev.Result{}, fmt.Errorf("after the load began the child stopped reporting (exit %d, signal %v): the installed filter (%d instructions) denies system calls that the policy allows", rr.Exit, rr.Signal, len(cp.raw))
		}
		return ev.Result{}, ev.Inconclusivef("no load event (exit %d, stderr %q)", rr.Exit, clip(rr.Stderr, 300))
	}
	ld := loads[0]
	res := ev.Result{Classes: []string{"abi:" + c.GOARCH, fmt.Sprintf("flag:%d", c.Flag), fmt.Sprintf("nnp:%v", c.NNP)}}
	if ld.Panic != "" {
		return res, fmt.Errorf("LoadFilter panicked: %s", ld.Panic)
	}
	if c.OpCase != 0 {
		res.Classes = append(res.Classes, "operation-names-in-another-letter-case-accepted")
	}
	if c.Reassembled {
		res.Classes = append(res.Classes, "policy-value-compiled-another-policy-before")
	}
	priorSynced := c.Prior && c.PriorSame && tsync // the earlier load was itself synchronised to every thread
	if c.PriorSame {
		res.Classes = append(res.Classes, "equal-program-installed-before-by-another-thread")
	} else if c.Prior {
		res.Classes = append(res.Classes, "second-thread-carries-a-divergent-filter")
	}
	if !ld.Nil && c.Prior && tsync && !priorSynced {
		// refused by the kernel and reported: nothing was claimed to be in force (what must be reported is C09's matter)
		res.Classes = append(res.Classes, "thread-sync-refused-and-reported")
		return res, nil
	}
	if !ld.Nil {
		return res, fmt.Errorf("LoadFilter of a valid %d-instruction policy failed as root: %s", len(cp.raw), ld.Err)
	}
	// the program handed to the kernel is the compiled one
	var fc []kjob.Capture
	for _, cap := range ld.Captures {
		if cap.Op == uint64(oracle.Const("SECCOMP_SET_MODE_FILTER")) {
			fc = append(fc, cap)
		}
	}
	if len(fc) != 1 {
		return res, fmt.Errorf("LoadFilter issued %d filter installations, want exactly 1", len(fc))
	}
	if fc[0].Len != len(cp.raw) {
		return res, fmt.Errorf("sock_fprog.len = %d, compiled program has %d instructions", fc[0].Len, len(cp.raw))
	}
	if want := rawHex(cp.raw); fc[0].Prog != want {
		d := 0
		for d < len(want) && d < len(fc[0].Prog) && want[d] == fc[0].Prog[d] {
			d++
		}
		return res, fmt.Errorf("the program handed to the kernel differs from the compiled one at instruction %d", d/16)
	}
	if fc[0].Flags != c.Flag {
		return res, fmt.Errorf("flags word passed to seccomp(2) is %#x, requested %#x", fc[0].Flags, c.Flag)
	}
	// status after the load
	sts := rr.Find(3+o, "status")
	if len(sts) != 1 {
		return res, ev.Inconclusivef("no status after load")
	}
	for _, s := range sts[0].Status {
		if s.Role != "command" {
			continue
		}
		want := 0
		if s.Idx == 0 || tsync {
			want++ // the load under test
		}
		if c.Prior && (s.Idx == 1 || priorSynced) {
			want++ // the earlier load
		}
		wantMode := 0
		if want > 0 {
			wantMode = 2
		}
		if s.Seccomp != wantMode || s.Filters != want {
			return res, fmt.Errorf("LoadFilter returned nil (flags %#x; earlier load on the other thread: %v, of the same policy: %v), thread %d should carry %d filter(s) and has Seccomp=%d Seccomp_filters=%d",
				c.Flag, c.Prior, c.PriorSame, s.Idx, want, s.Seccomp, s.Filters)
		}
	}
	// probes on the loading thread and on the other thread
	firstKill := -1
	wants := make([]uint32, len(c.Events))
	deciding := map[int]bool{}
	outcomes := map[uint32]map[uint32]bool{}
	for i, e := range c.Events {
		w, info, err := model.Decide(p, e)
		if err != nil {
			return res, ev.Inconclusivef("model: %v", err)
		}
		wants[i] = w
		if w == actKillP && firstKill < 0 {
			firstKill = i
		}
		if info.Group >= 0 {
			deciding[info.Group] = true
		}
		if info.Conditional || info.FellThrough > 0 {
			if outcomes[e.Nr] == nil {
				outcomes[e.Nr] = map[uint32]bool{}
			}
			outcomes[e.Nr][w] = true
		}
	}
	pe := rr.Find(4+o, "probe")
	if firstKill < 0 {
		if rr.Signaled {
			return res, fmt.Errorf("no probe is answered kill_process, but the child was killed by signal %v", rr.Signal)
		}
		if len(pe) != 1 || len(pe[0].Results) != len(c.Events) {
			return res, ev.Inconclusivef("probe results missing (exit %d, stderr %q)", rr.Exit, clip(rr.Stderr, 300))
		}
		for i, e := range c.Events {
			if err := expectProbe(wants[i], pe[0].Results[i], baseByNr[e.Nr], e); err != nil {
				return res, fmt.Errorf("loading thread, program of %d instructions: %v", len(cp.raw), err)
			}
		}
		pe2 := rr.Find(5+o, "probe")
		if len(pe2) != 1 || len(pe2[0].Results) != len(c.Events) {
			return res, ev.Inconclusivef("probe results of the second thread missing")
		}
		for i, e := range c.Events {
			w := wants[i]
			if !tsync && !c.PriorSame {
				w = actAllow
			}
			if err := expectProbe(w, pe2[0].Results[i], baseByNr[e.Nr], e); err != nil {
				return res, fmt.Errorf("second thread (thread-sync %v): %v", tsync, err)
			}
		}
	} else {
		// the child must die of SIGSYS exactly at the first probe answered kill_process
		if !rr.Signaled || rr.Signal != syscall.SIGSYS {
			return res, fmt.Errorf("probe %d (%s) is answered kill_process, but the child was not killed by SIGSYS (signaled=%v signal=%v exit=%d)", firstKill, fmtEvent(c.Events[firstKill]), rr.Signaled, rr.Signal, rr.Exit)
		}
		begun := rr.Find(4+o, "probe-begin")
		if len(begun) != firstKill+1 {
			return res, fmt.Errorf("the child died at probe %d, the first kill_process decision is probe %d (%s)", len(begun)-1, firstKill, fmtEvent(c.Events[firstKill]))
		}
		res.Classes = append(res.Classes, "killed-by-SIGSYS-at-the-expected-probe")
	}
	if c.Strace {
		// observation at the system-call boundary, independent of the hooks
		var sec []kchild.SysCall
		for _, s := range rr.Strace {
			if s.Name == "seccomp" && len(s.Args) > 0 && s.Args[0] == "0x1" {
				sec = append(sec, s)
			}
		}
		if len(sec) != 1+o {
			return res, ev.Inconclusivef("strace saw %d seccomp calls", len(sec))
		}
		sec = sec[o:]
		if len(sec[0].Args) < 2 || sec[0].Args[0] != "0x1" || sec[0].Args[1] != fmt.Sprintf("%#x", c.Flag) && !(c.Flag == 0 && sec[0].Args[1] == "0") {
			return res, fmt.Errorf("strace: seccomp(%v) at the system-call boundary, requested flags %#x", sec[0].Args, c.Flag)
		}
		res.Classes = append(res.Classes, "strace-cross-check")
	}
	// classes
	if len(cp.raw) > 255 {
		res.Classes = append(res.Classes, "program>255")
		res.NonTrivial = true
	}
	for g := range deciding {
		if g >= 1 {
			res.Classes = append(res.Classes, "decided-by-group>=2")
			res.NonTrivial = true
		}
	}
	for _, m := range outcomes {
		if len(m) >= 2 {
			res.Classes = append(res.Classes, "argument-condition-outcome-differs-between-probes")
			res.NonTrivial = true
		}
	}
	if firstKill >= 0 {
		res.NonTrivial = true
	}
	for _, w := range wants {
		switch w {
		case actErrno | 1:
			res.Classes = append(res.Classes, "probe-denied-EPERM")
		case actTrace:
			res.Classes = append(res.Classes, "probe-trace-ENOSYS")
		case actAllow, actLog:
			res.Classes = append(res.Classes, "probe-allowed")
		}
	}
	res.Sub = len(c.Events)
	return res, nil
}

func TestC08Kernel(t *testing.T) {
	ev.Prop(t, "C08", "kernel", drawC08, checkC08)
}
