package props

import (
	"os"
	"runtime"
	"strconv"

	"verif/harness/internal/cbpf"
)

func runRaw(cp *compiled, w *[16]uint32) (uint32, error) { return cbpf.Run(cp.raw, w, nil) }

// shardSeed is the seed of this shard as computed by the driver (never 0).
func shardSeed() uint64 {
	v, _ := strconv.ParseUint(os.Getenv("VERIF_SHARD_SEED"), 10, 64)
	if v == 0 {
		v = 1
	}
	return v
}

// shardInfo returns (number of shards, index of this shard) for enumerations
// that are split over processes.
func shardInfo() (int, int) {
	n, _ := strconv.Atoi(os.Getenv("VERIF_NSHARDS"))
	i, _ := strconv.Atoi(os.Getenv("VERIF_SHARD_INDEX"))
	if n <= 0 {
		return 1, 0
	}
	return n, i % n
}

func hostArchName() string {
	switch runtime.GOARCH {
	case "amd64":
		return "x86_64"
	case "386":
		return "i386"
	case "arm":
		return "arm"
	case "arm64":
		return "aarch64"
	}
	return runtime.GOARCH
}
