package props

import (
	"encoding/json"
	"fmt"
	"os"
	"path/filepath"
	"reflect"
	"strings"
	"testing"
	"time"

	"github.com/elastic/go-seccomp-bpf/arch"
	"github.com/elastic/go-seccomp-bpf/cmd/seccomp-profiler/disasm"
	"pgregory.net/rapid"

	"verif/harness/internal/ev"
	"verif/harness/internal/gen"
	"verif/harness/internal/sitemodel"
	"verif/harness/internal/spec"
)

// C16 — syscall extraction is total, function-scoped and never silently truncated.

type c16Case struct {
	Kind    string            `json:"kind"` // model / text / overlong / truncate / unreadable
	Listing sitemodel.Listing `json:"listing"`
	Seed    uint64            `json:"seed"`
	Text    string            `json:"text,omitempty"`    // kind text: the literal input
	At      int               `json:"at,omitempty"`      // overlong: function index before which the long line goes; truncate: cut position selector
	LongLen int               `json:"longlen,omitempty"` // overlong: length of the line
	// LongHeader (overlong): the long line is not an instruction of a function of its own but the header line of function
	// At itself (a symbol with a very long instantiated type)
	LongHeader bool   `json:"long_header,omitempty"`
	Path       string `json:"path,omitempty"` // unreadable: path to offer
}

func drawNum(t *rapid.T, table []int) int {
	switch rapid.IntRange(0, 6).Draw(t, "numClass") {
	case 6:
		// a number inside the range of the table that the table does not assign (the tables have gaps)
		lo, hi := table[0], table[len(table)-1]
		if hi > 600 {
			hi = 600 // (ARM's private numbers lie far out)
		}
		start := rapid.IntRange(lo, hi).Draw(t, "numGapStart")
		in := map[int]bool{}
		for _, n := range table {
			in[n] = true
		}
		for k := 0; k <= hi-lo; k++ {
			n := lo + (start-lo+k)%(hi-lo+1)
			if !in[n] {
				return n
			}
		}
		return hi + 1
	case 0:
		return rapid.IntRange(0, 5).Draw(t, "numSmall")
	case 1:
		return rapid.IntRange(600, 100000).Draw(t, "numOutside") // not in any table
	case 2:
		// a table number with one high bit set (x32 bit and friends): not in the table either
		n := table[rapid.IntRange(0, len(table)-1).Draw(t, "numTableHi")]
		return n | 1<<uint(rapid.IntRange(20, 31).Draw(t, "numHiBit"))
	default:
		return table[rapid.IntRange(0, len(table)-1).Draw(t, "numTable")]
	}
}

var tableNums = map[string][]int{}

func tableNumbers(archName string) []int {
	if v, ok := tableNums[archName]; ok {
		return v
	}
	var out []int
	for n := range spec.ArchInfo(archName).SyscallNumbers {
		out = append(out, n)
	}
	// deterministic order
	for i := 1; i < len(out); i++ {
		for j := i; j > 0 && out[j] < out[j-1]; j-- {
			out[j], out[j-1] = out[j-1], out[j]
		}
	}
	tableNums[archName] = out
	return out
}

func drawListing(t *rapid.T) sitemodel.Listing {
	l := sitemodel.Listing{Arch: []string{"x86_64", "x86_64", "i386"}[rapid.IntRange(0, 2).Draw(t, "arch")]}
	table := tableNumbers(l.Arch)
	// mostly the architecture's own trigger instructions, now and then the other architecture's (a 64-bit program may
	// contain INT $0x80, a listing may be offered to the wrong parser): whatever is reported for them has to be in this
	// architecture's table under the reported name like everything else
	triggers := []string{"SYSCALL", "SYSCALL", "SYSCALL", "SYSCALL", "SYSCALL", "SYSCALL", "INT $0x80", "SYSENTER"}
	if l.Arch == "i386" {
		triggers = []string{"INT $0x80", "SYSENTER", "INT $0x80", "SYSENTER", "INT $0x80", "SYSENTER", "SYSCALL"}
	}
	nf := rapid.IntRange(1, 8).Draw(t, "nfuncs")
	if rapid.IntRange(0, 5).Draw(t, "manyFuncs") == 0 {
		// a listing of several read-buffer lengths (the reader works in 4096-byte blocks: whatever is remembered from one
		// block must still be right after the next ones were read)
		nf = rapid.IntRange(20, 60).Draw(t, "nfuncsMany")
	}
	for f := 0; f < nf; f++ {
		fn := sitemodel.Func{}
		switch rapid.IntRange(0, 7).Draw(t, "fnName") {
		case 0:
			fn.Name = sitemodel.Wrappers[rapid.IntRange(0, len(sitemodel.Wrappers)-1).Draw(t, "wrapperFn")]
		case 1:
			// symbols with blanks, as go tool objdump prints them for generated equality functions and generic shapes
			fn.Name = []string{"type:.eq.struct { runtime.gList; runtime.n int32 }%d(SB)", "main.f%d[go.shape.struct { Key reflect.Value; Value reflect.Value }](SB)",
				"type:.hash.[%d]struct { a int; b string }(SB)", "main.(*T%d).method-fm(SB)"}[rapid.IntRange(0, 3).Draw(t, "blankName")]
			fn.Name = fmt.Sprintf(fn.Name, f)
		case 2:
			// symbols that contain the text of a trigger instruction: a header line is a header, whatever else it looks like
			fn.Name = []string{"main.CALLBACK%d(SB)", "main.doSYSCALL%d(SB)", "main.f%d[go.shape.struct { CALL int }](SB)", "main.SYSENTER%d(SB)",
				"main.(*RPCALL%d).Do(SB)", "main.CALL syscall.Syscall%d(SB)"}[rapid.IntRange(0, 5).Draw(t, "triggerName")]
			fn.Name = fmt.Sprintf(fn.Name, f)
		default:
			fn.Name = fmt.Sprintf("main.f%d(SB)", f)
		}
		ni := rapid.IntRange(0, 6).Draw(t, "nitems")
		for i := 0; i < ni; i++ {
			it := sitemodel.Item{Instr: triggers[rapid.IntRange(0, len(triggers)-1).Draw(t, "trigger")], Hex: rapid.Bool().Draw(t, "hex")}
			switch rapid.IntRange(0, 11).Draw(t, "itemKind") {
			case 0, 1, 2:
				it.Kind, it.Num = sitemodel.RawSite, drawNum(t, table)
				it.Gap = []int{0, 0, 0, 1, 3}[rapid.IntRange(0, 4).Draw(t, "gap")]
				it.Reg = []string{"AX", "AX", "BP"}[rapid.IntRange(0, 2).Draw(t, "reg")]
			case 3, 4:
				it.Kind, it.Num = sitemodel.WrapperSite, drawNum(t, table)
				it.Gap = []int{0, 0, 2}[rapid.IntRange(0, 2).Draw(t, "gap")]
				it.Wrapper = sitemodel.Wrappers[rapid.IntRange(0, len(sitemodel.Wrappers)-1).Draw(t, "wrapper")]
			case 5:
				it.Kind = sitemodel.XorSite
			case 6, 7:
				it.Kind = sitemodel.BareSite // no number load of its own: bait for leaks from other functions
			case 8:
				it.Kind, it.Num = sitemodel.LoadOnly, drawNum(t, table)
			case 9:
				it.Kind = sitemodel.GarbageNum
			default:
				it.Kind, it.Gap = sitemodel.Filler, rapid.IntRange(0, 4).Draw(t, "fill")
			}
			fn.Items = append(fn.Items, it)
		}
		// scope bait: end the function with a number load so that a bare site opening the next function could steal it
		if rapid.IntRange(0, 3).Draw(t, "endWithLoad") == 0 {
			fn.Items = append(fn.Items, sitemodel.Item{Kind: sitemodel.LoadOnly, Num: table[rapid.IntRange(0, len(table)-1).Draw(t, "baitNum")], Hex: true})
		}
		l.Funcs = append(l.Funcs, fn)
	}
	// scope bait of the other kind: a function whose very last line is "XORL AX, AX" (no RET behind it), and the next
	// function opens with a site as the first line after its header
	if len(l.Funcs) >= 2 && rapid.IntRange(0, 4).Draw(t, "xorAcrossHeader") == 0 {
		i := rapid.IntRange(0, len(l.Funcs)-2).Draw(t, "xorAt")
		if !sitemodel.IsWrapperFunc(l.Funcs[i+1].Name) {
			l.Funcs[i].Items = append(l.Funcs[i].Items, sitemodel.Item{Kind: sitemodel.XorOnly})
			l.Funcs[i].NoRet = true
			l.Funcs[i+1].NoLead = true
			bare := sitemodel.Item{Kind: sitemodel.BareSite, Instr: triggers[rapid.IntRange(0, len(triggers)-1).Draw(t, "xorTrigger")]}
			l.Funcs[i+1].Items = append([]sitemodel.Item{bare}, l.Funcs[i+1].Items...)
		}
	}
	// a function of thousands of lines (generated code, big switch statements) that ends with a number load, followed by a
	// function that opens with a site without a load of its own: however long the earlier function was, nothing of it
	// belongs to the later one. Lengths around the powers of two a bounded look-behind would use.
	if len(l.Funcs) >= 2 && rapid.IntRange(0, ev.Scale(39, 19)).Draw(t, "longFunction") == 0 {
		i := rapid.IntRange(0, len(l.Funcs)-2).Draw(t, "longAt")
		sizes := []int{1022, 1024, 1026, 4094, 4096, 4098, 8186, 8188, 8190, 8191, 8192, 8193, 8194, 8196, 16382, 16384, 16386}
		if ev.Tier() == "thorough" {
			sizes = append(sizes, 32766, 32768, 32770, 65534, 65536, 65538, 131072)
		}
		n := sizes[rapid.IntRange(0, len(sizes)-1).Draw(t, "longLen")]
		items := []sitemodel.Item{{Kind: sitemodel.Filler, Gap: n}}
		items = append(items, l.Funcs[i].Items...)
		items = append(items, sitemodel.Item{Kind: sitemodel.LoadOnly, Num: table[rapid.IntRange(0, len(table)-1).Draw(t, "longBait")], Hex: true})
		l.Funcs[i].Items = items
		if !sitemodel.IsWrapperFunc(l.Funcs[i+1].Name) && !l.Funcs[i+1].NoLead {
			bare := sitemodel.Item{Kind: sitemodel.BareSite, Instr: triggers[rapid.IntRange(0, len(triggers)-1).Draw(t, "longTrigger")]}
			l.Funcs[i+1].Items = append([]sitemodel.Item{bare}, l.Funcs[i+1].Items...)
		}
	}
	return l
}

var hostileLines = []string{"TEXT", "TEXT ", "TEXTX", "TEXT\t", "SYSCALL", "  SYSCALL", "a SYSCALL", "a b SYSCALL", "INT $0x80", "x INT $0x80", "SYSENTER",
	"CALL syscall.Syscall(SB)", "x CALL syscall.Syscall6(SB)", "XORL AX, AX", "  f.go:1\t0x1\t00\tXORL AX, AX\t", "MOVL $, AX", "MOVL $0x, AX", "MOVL $99999999999999999999, AX",
	"MOVL $-1, AX", "MOVQ $0x3b, 0(SP)", "\x00\x00\x00", "\xff\xfe\xfd SYSCALL", "TEXT \xc3\x28", "", " ", "\t", "TEXT a", "TEXT main.main(SB) /x.go", "  f.go:2\t0x2\t0f05\tSYSCALL\t",
	"  f.go:3\t0x3\tb8\tMOVL $0x3b, AX\t", "\r", "SYSCALL\r", "TEXT\r",
	"  f.go:4\t0x4\t48\tMOVQ main.MOVED(SB), CX\t", "  f.go:5\t0x5\te9\tJMP main.MOVMOV(SB)\t", "  f.go:6\t0x6\t48\tMOVQ $main.MOVABLE(SB), DX\t", "MOV MOV MOV", "MOVQ $MOVQ $1, AX, AX",
	"SYSCALL SYSCALL", "CALL syscall.Syscall(SB) CALL syscall.Syscall(SB)", "TEXT TEXT TEXT", "XORL AX, AX XORL AX, AX", "INT $0x80 INT $0x80", "$$", "MOVL $$1, AX", "MOVL $1, AX, AX", "MOVL $1, , AX"}

func drawC16(t *rapid.T) c16Case {
	c := c16Case{Seed: rapid.Uint64().Draw(t, "seed")}
	switch k := rapid.IntRange(0, 9).Draw(t, "kind"); {
	case k < 4:
		c.Kind, c.Listing = "model", drawListing(t)
	case k < 6:
		c.Kind = "text"
		c.Listing.Arch = []string{"x86_64", "i386"}[rapid.IntRange(0, 1).Draw(t, "arch")]
		n := rapid.IntRange(1, 12).Draw(t, "nlines")
		var lines []string
		for i := 0; i < n; i++ {
			switch rapid.IntRange(0, 3).Draw(t, "lineClass") {
			case 0, 1:
				lines = append(lines, hostileLines[rapid.IntRange(0, len(hostileLines)-1).Draw(t, "hostile")])
			case 2:
				lines = append(lines, rapid.StringMatching(`[ \tA-Za-z0-9$(),.:_]{0,40}`).Draw(t, "line"))
			default:
				lines = append(lines, rapid.String().Draw(t, "anyline"))
			}
		}
		sep := []string{"\n", "\n", "\r\n"}[rapid.IntRange(0, 2).Draw(t, "sep")]
		c.Text = strings.Join(lines, sep)
		if rapid.Bool().Draw(t, "finalNewline") {
			c.Text += sep
		}
	case k < 8:
		c.Kind, c.Listing = "overlong", drawListing(t)
		c.At = rapid.IntRange(0, len(c.Listing.Funcs)).Draw(t, "at")
		c.LongLen = []int{65536, 65537, 70000, 200000, 64 * 1024 * 3}[rapid.IntRange(0, 4).Draw(t, "longlen")]
		c.LongHeader = rapid.IntRange(0, 2).Draw(t, "longHeader") == 0
	case k < 9:
		c.Kind, c.Listing = "truncate", drawListing(t)
		c.At = rapid.IntRange(0, 1<<20).Draw(t, "cut")
	default:
		c.Kind = "unreadable"
		c.Listing.Arch = "x86_64"
		c.Path = []string{"<dir>", "/proc/self/mem", "<missing>"}[rapid.IntRange(0, 2).Draw(t, "path")]
	}
	return c
}

// extract calls ExtractSyscalls. A panic is returned in pan; so is the other thing that must never happen whatever the
// input: a result handed back together with an error ("returns an error, not a partial result").
func extract(archName, path string) (res []disasm.Syscall, err error, pan any) {
	type outcome struct {
		res []disasm.Syscall
		err error
		pan any
	}
	ch := make(chan outcome, 1)
	go func() {
		var o outcome
		defer func() {
			if x := recover(); x != nil {
				o.pan = fmt.Sprintf("panic: %v", x)
			}
			ch <- o
		}()
		o.res, o.err = disasm.ExtractSyscalls(spec.ArchInfo(archName), path)
	}()
	// "terminates": a listing of this size is read in micro- to milliseconds (about 100 MB/s). The extraction gets 6 s plus
	// a second per 500 KB, and when that has passed twice as much again, before it is said not to terminate.
	limit := 6 * time.Second
	if fi, serr := os.Stat(path); serr == nil && fi.Mode().IsRegular() {
		limit += time.Duration(fi.Size()/500000) * time.Second
	}
	var o outcome
	select {
	case o = <-ch:
	case <-time.After(limit):
		select {
		case o = <-ch:
		case <-time.After(2 * limit):
			return nil, nil, fmt.Sprintf("ExtractSyscalls did not return within %v (the text is read in milliseconds)", 3*limit)
		}
	}
	res, err, pan = o.res, o.err, o.pan
	if pan == nil && err != nil && len(res) > 0 {
		pan = fmt.Sprintf("an error (%v) was returned together with a partial result of %d syscalls (%v ...)", err, len(res), keys(res[:1]))
	}
	return
}

func writeTemp(dir, name, text string) (string, error) {
	p := filepath.Join(dir, name)
	return p, os.WriteFile(p, []byte(text), 0o644)
}

// wellFormed checks what holds for every result whatever the input.
func wellFormed(archName string, res []disasm.Syscall) error {
	tbl := spec.ArchInfo(archName).SyscallNumbers
	for _, s := range res {
		name, ok := tbl[s.Num]
		if !ok {
			return fmt.Errorf("reported syscall number %d does not exist in the %s table", s.Num, archName)
		}
		if name != s.Name {
			return fmt.Errorf("reported syscall %d under the name %q, the %s table calls it %q", s.Num, s.Name, archName, name)
		}
	}
	return nil
}

func keyOf(s disasm.Syscall) string { return fmt.Sprintf("%d@%s", s.Num, s.Caller) }

func keys(res []disasm.Syscall) []string {
	var out []string
	for _, s := range res {
		out = append(out, keyOf(s))
	}
	return out
}

// scopeAndCompleteness compares the result with the model's expectation.
func scopeAndCompleteness(l *sitemodel.Listing, res []disasm.Syscall) (leakBait bool, err error) {
	tbl := spec.ArchInfo(l.Arch).SyscallNumbers
	exp := sitemodel.Expectations(l, tbl)
	byFunc := map[string]*sitemodel.Expect{}
	for i := range exp {
		e := &exp[i]
		name := e.Func + " /src/file.go" // Caller is the TEXT line without the marker
		if old, ok := byFunc[name]; ok {
			// same function name twice: merge
			for n := range e.Possible {
				old.Possible[n] = true
			}
			old.Must = append(old.Must, e.Must...)
			continue
		}
		byFunc[name] = e
	}
	got := map[string]map[int]int{}
	// how the caller is spelled (whole header line, symbol only, ...) is not pinned down: find the function by its symbol
	lookup := func(caller string) (string, *sitemodel.Expect) {
		if e, ok := byFunc[caller]; ok {
			return caller, e
		}
		c := strings.TrimSpace(caller)
		for name, e := range byFunc {
			if c != "" && (strings.HasPrefix(name, c) || strings.HasPrefix(c, e.Func)) {
				return name, e
			}
		}
		return "", nil
	}
	for _, s := range res {
		key, e := lookup(s.Caller)
		if e == nil {
			return false, fmt.Errorf("syscall %d attributed to caller %q, which is not a function of the listing", s.Num, s.Caller)
		}
		s.Caller = key
		if !e.Possible[s.Num] {
			return false, fmt.Errorf("syscall number %d (%s) is attributed to a site in %q, but no instruction of that function loads this number: it was taken from another function", s.Num, s.Name, e.Func)
		}
		if got[s.Caller] == nil {
			got[s.Caller] = map[int]int{}
		}
		got[s.Caller][s.Num]++
	}
	for name, e := range byFunc {
		need := map[int]int{}
		for _, n := range e.Must {
			need[n]++
		}
		for n, k := range need {
			if got[name][n] < k {
				return false, fmt.Errorf("function %q has %d canonical site(s) for syscall %d (number load directly followed by the trigger instruction), the extraction reports %d", e.Func, k, n, got[name][n])
			}
		}
	}
	// was there a scope bait (bare site directly after a function ending in a load)?
	for i := 1; i < len(l.Funcs); i++ {
		prev := l.Funcs[i-1].Items
		if len(prev) > 0 && prev[len(prev)-1].Kind == sitemodel.LoadOnly {
			for _, it := range l.Funcs[i].Items {
				if it.Kind == sitemodel.BareSite {
					leakBait = true
				}
				if it.Kind != sitemodel.Filler {
					break
				}
			}
		}
	}
	return leakBait, nil
}

func checkC16(raw json.RawMessage) (ev.Result, error) {
	var c c16Case
	if err := json.Unmarshal(raw, &c); err != nil {
		return ev.Result{}, ev.Inconclusivef("bad case: %v", err)
	}
	dir, err := os.MkdirTemp(os.Getenv("VERIF_TMP"), "c16")
	if err != nil {
		return ev.Result{}, ev.Inconclusivef("%v", err)
	}
	defer os.RemoveAll(dir)
	archName := c.Listing.Arch
	res := ev.Result{Classes: []string{"kind:" + c.Kind, "parser:" + archName}}
	switch c.Kind {
	case "model":
		text, chunks := sitemodel.Render(&c.Listing, c.Seed)
		p, _ := writeTemp(dir, "all.txt", text)
		all, err, pan := extract(archName, p)
		if pan != nil {
			return res, fmt.Errorf("extraction misbehaved on a well-formed listing: %v", pan)
		}
		if err != nil {
			return res, fmt.Errorf("extraction failed on a well-formed listing: %v", err)
		}
		if err := wellFormed(archName, all); err != nil {
			return res, err
		}
		bait, err := scopeAndCompleteness(&c.Listing, all)
		if err != nil {
			return res, fmt.Errorf("%v\n%s", err, clip(text, 2500))
		}
		if bait {
			res.Classes = append(res.Classes, "scope-bait")
		}
		// function-concatenation law over every split point
		for k := 1; k < len(chunks); k++ {
			p1, _ := writeTemp(dir, "a.txt", strings.Join(chunks[:k], ""))
			p2, _ := writeTemp(dir, "b.txt", strings.Join(chunks[k:], ""))
			r1, e1, pan1 := extract(archName, p1)
			r2, e2, pan2 := extract(archName, p2)
			if pan1 != nil || pan2 != nil || e1 != nil || e2 != nil {
				return res, fmt.Errorf("extraction of a part of the listing failed: %v %v %v %v", pan1, pan2, e1, e2)
			}
			want := append(append([]string{}, keys(r1)...), keys(r2)...)
			if !reflect.DeepEqual(keys(all), want) && !(len(all) == 0 && len(want) == 0) {
				return res, fmt.Errorf("Extract(F1 ++ F2) differs from Extract(F1) ++ Extract(F2) at split %d of %d functions: whole %v, parts %v (appending functions changed earlier results, or results leak across functions)\n%s",
					k, len(chunks), keys(all), want, clip(text, 2500))
			}
		}
		for _, f := range c.Listing.Funcs {
			for _, it := range f.Items {
				res.Classes = append(res.Classes, "item:"+it.Kind)
			}
			if sitemodel.IsWrapperFunc(f.Name) {
				res.Classes = append(res.Classes, "trigger-inside-a-wrapper-function")
			}
			for _, it := range f.Items {
				if it.Kind == sitemodel.Filler && it.Gap >= 8190 {
					res.Classes = append(res.Classes, "function-of-more-than-8190-lines")
				} else if it.Kind == sitemodel.Filler && it.Gap >= 1000 {
					res.Classes = append(res.Classes, "function-of-more-than-1000-lines")
				}
			}
		}
		res.NonTrivial = len(c.Listing.Funcs) >= 2 && len(all) >= 1
		res.Sub = len(chunks)
	case "text":
		p, _ := writeTemp(dir, "t.txt", c.Text)
		r, _, pan := extract(archName, p)
		if pan != nil {
			return res, fmt.Errorf("extraction misbehaved on input %q: %v", clip(c.Text, 300), pan)
		}
		if err := wellFormed(archName, r); err != nil {
			return res, err
		}
		res.NonTrivial = true
		for _, l := range strings.Split(c.Text, "\n") {
			tl := strings.TrimRight(l, "\r")
			if tl == "TEXT" || tl == "TEXT " {
				res.Classes = append(res.Classes, "TEXT-only-line")
			}
			if (strings.Contains(tl, "SYSCALL") || strings.Contains(tl, "INT $0x80") || strings.Contains(tl, "CALL syscall.")) && len(strings.Fields(tl)) < 3 {
				res.Classes = append(res.Classes, "trigger-line-with-fewer-than-3-fields")
			}
		}
	case "overlong":
		_, chunks := sitemodel.Render(&c.Listing, c.Seed)
		at := c.At
		if at > len(chunks) {
			at = len(chunks)
		}
		long := "  file.go:1\t\t0x400000\t\t90\t\tNOPL " + strings.Repeat("x", c.LongLen) + "\t\n"
		before, after := strings.Join(chunks[:at], ""), strings.Join(chunks[at:], "")
		// put the long line inside a function of its own so that function scoping is not disturbed
		text := before + "TEXT main.long(SB) /src/file.go\n" + long + after
		origCaller := ""
		if c.LongHeader && at < len(chunks) && at < len(c.Listing.Funcs) && !sitemodel.IsWrapperFunc(c.Listing.Funcs[at].Name) {
			// (not for the wrapper functions: renaming one changes what its body means)
			// the header of function `at` itself is the long line; everything else stays as it is
			body := chunks[at]
			if i := strings.Index(body, "\n"); i >= 0 && strings.HasPrefix(body, "TEXT ") {
				origCaller = strings.TrimPrefix(body[len("TEXT"):i], " ")
				body = "TEXT main.long[go.shape.struct { F " + strings.Repeat("x", c.LongLen) + " }](SB) /src/file.go" + body[i:]
				text = before + body + strings.Join(chunks[at+1:], "")
				res.Classes = append(res.Classes, "overlong-line-is-a-function-header")
			}
		}
		p, _ := writeTemp(dir, "long.txt", text)
		r, err, pan := extract(archName, p)
		if pan != nil {
			return res, fmt.Errorf("extraction misbehaved on a listing with a %d-byte line: %v", c.LongLen, pan)
		}
		pos := "middle"
		if at == 0 {
			pos = "first"
		} else if at == len(chunks) {
			pos = "last"
		}
		res.Classes = append(res.Classes, "overlong-line:"+pos)
		if err != nil {
			res.Classes = append(res.Classes, "overlong:error-reported")
			res.NonTrivial = true
			return res, nil
		}
		// no error: then the text must really have been read to the end
		pa, _ := writeTemp(dir, "after.txt", after)
		ra, ea, _ := extract(archName, pa)
		pb, _ := writeTemp(dir, "before.txt", before)
		rb, eb, _ := extract(archName, pb)
		if ea != nil || eb != nil {
			return res, ev.Inconclusivef("parts do not parse: %v %v", ea, eb)
		}
		want := append(append([]string{}, keys(rb)...), keys(ra)...)
		if origCaller != "" {
			// an implementation that can read the long header reports the function under its long name
			for i := range r {
				if strings.HasPrefix(r[i].Caller, "main.long[") {
					r[i].Caller = origCaller
				}
			}
		}
		if !reflect.DeepEqual(keys(r), want) && !(len(r) == 0 && len(want) == 0) {
			return res, fmt.Errorf("a %d-byte line (function header: %v) at the %s of the listing: no error is returned, but the result %v is not the result %v of the same listing without the long line: partial or mis-attributed result without error",
				c.LongLen, c.LongHeader, pos, keys(r), want)
		}
		res.Classes = append(res.Classes, "overlong:read-to-the-end")
		res.NonTrivial = len(ra) > 0
	case "truncate":
		text, _ := sitemodel.Render(&c.Listing, c.Seed)
		cut := 0
		if len(text) > 0 {
			cut = c.At % (len(text) + 1)
		}
		p, _ := writeTemp(dir, "cut.txt", text[:cut])
		r, err, pan := extract(archName, p)
		if pan != nil {
			return res, fmt.Errorf("extraction misbehaved on a listing truncated at byte %d: %v\n%q", cut, pan, clip(text[max(0, cut-200):cut], 300))
		}
		if err == nil {
			if err := wellFormed(archName, r); err != nil {
				return res, err
			}
			// whatever is found in a prefix must respect function scope as well
			if _, err := scopeAndCompletenessPrefix(&c.Listing, r); err != nil {
				return res, err
			}
		}
		res.NonTrivial = cut > 0 && cut < len(text)
	case "unreadable":
		path := c.Path
		switch c.Path {
		case "<dir>":
			path = dir
		case "<missing>":
			path = filepath.Join(dir, "does-not-exist")
		}
		r, err, pan := extract(archName, path)
		if pan != nil {
			return res, fmt.Errorf("extraction misbehaved on unreadable path %s: %v", c.Path, pan)
		}
		if err == nil {
			return res, fmt.Errorf("the text at %s cannot be read, but extraction returned %d results and no error", c.Path, len(r))
		}
		res.Classes = append(res.Classes, "unreadable:"+c.Path)
		res.NonTrivial = true
	default:
		return res, ev.Inconclusivef("unknown kind %q", c.Kind)
	}
	_ = gen.Mix
	return res, nil
}

// scopeAndCompletenessPrefix only checks the scope half (a truncated listing
// may miss sites).
func scopeAndCompletenessPrefix(l *sitemodel.Listing, res []disasm.Syscall) (bool, error) {
	tbl := spec.ArchInfo(l.Arch).SyscallNumbers
	exp := sitemodel.Expectations(l, tbl)
	poss := map[string]map[int]bool{}
	for _, e := range exp {
		name := e.Func + " /src/file.go"
		if poss[name] == nil {
			poss[name] = map[int]bool{}
		}
		for n := range e.Possible {
			poss[name][n] = true
		}
	}
	for _, s := range res {
		// the caller line itself may be cut: accept any function whose name starts with the reported one
		ok := false
		for name, p := range poss {
			if (name == s.Caller || strings.HasPrefix(name, s.Caller)) && p[s.Num] {
				ok = true
			}
		}
		if !ok {
			return false, fmt.Errorf("truncated listing: syscall %d attributed to %q, where no instruction loads it", s.Num, s.Caller)
		}
	}
	return false, nil
}

func max(a, b int) int {
	if a > b {
		return a
	}
	return b
}

func TestC16Extraction(t *testing.T) {
	ev.Prop(t, "C16", "extract", drawC16, checkC16)
}

// other Info values must be refused
func checkC16Arch(raw json.RawMessage) (ev.Result, error) {
	var c struct {
		Arch string `json:"arch"`
	}
	json.Unmarshal(raw, &c)
	infos := map[string]*arch.Info{"arm": arch.ARM, "aarch64": arch.AARCH64, "ppc64": arch.PPC64, "mips": arch.MIPS, "s390x": arch.S390X}
	info, ok := infos[c.Arch]
	if !ok {
		return ev.Result{}, ev.Inconclusivef("unknown arch %q", c.Arch)
	}
	var err error
	var pan any
	func() {
		defer func() { pan = recover() }()
		_, err = disasm.ExtractSyscalls(info, "/dev/null")
	}()
	if pan != nil {
		return ev.Result{}, fmt.Errorf("ExtractSyscalls panicked for %s: %v", c.Arch, pan)
	}
	if err == nil {
		return ev.Result{}, fmt.Errorf("ExtractSyscalls accepts architecture %s, for which it has no parser", c.Arch)
	}
	return ev.Result{Classes: []string{"unsupported-parser-arch"}, NonTrivial: true}, nil
}

func TestC16UnsupportedArch(t *testing.T) {
	ev.Register("C16", "arch", checkC16Arch)
	for _, a := range []string{"arm", "aarch64", "ppc64", "mips", "s390x"} {
		ev.CheckOne(t, "C16", "arch", map[string]string{"arch": a}, checkC16Arch)
	}
}
