package props

import (
	"encoding/json"
	"fmt"
	"go/ast"
	"go/parser"
	"go/token"
	"path/filepath"
	"sort"
	"strconv"
	"strings"
)

// C19, loader stubs per target. The stubs of a non-Linux target cannot be executed here (except js/wasm), and the files
// that make them up may differ from one system to the next (a build-tagged file for one GOOS). For every non-Linux
// target the files the go tool selects are read, and the three loader functions - with every function of the package
// they reach - must not call into a package through which a program reaches its operating system (syscall,
// golang.org/x/sys, os, net, time, log). Values of those packages (an errno to return) are not calls and are fine.

var c19OSPackages = []string{"syscall", "golang.org/x/sys/", "os", "os/", "net", "net/", "time", "log", "log/", "runtime/cgo", "C"}

func c19IsOSPackage(path string) bool {
	for _, p := range c19OSPackages {
		if path == p || (strings.HasSuffix(p, "/") && strings.HasPrefix(path, p)) {
			return true
		}
	}
	return false
}

// stubCallsOnTarget returns descriptions of calls into operating-system packages reachable from the loader functions in
// the root package as built for the target, and how many function bodies were inspected.
func stubCallsOnTarget(goos, goarch string) (found []string, inspected int, err error) {
	args := append([]string{"list", "-tags", "verif", "-json"}, modfileArg()...)
	out, lerr := goCmd([]string{"GOOS=" + goos, "GOARCH=" + goarch}, append(args, "github.com/elastic/go-seccomp-bpf")...)
	if lerr != nil {
		return nil, 0, fmt.Errorf("go list: %v: %s", lerr, clip(string(out), 300))
	}
	var pkg struct {
		Dir     string
		GoFiles []string
	}
	if i := strings.Index(string(out), "{"); i < 0 || json.Unmarshal(out[i:], &pkg) != nil || pkg.Dir == "" {
		return nil, 0, fmt.Errorf("go list output not understood: %s", clip(string(out), 200))
	}
	fset := token.NewFileSet()
	type fn struct {
		decl    *ast.FuncDecl
		imports map[string]string // local name -> path
		file    string
	}
	funcs := map[string]fn{}
	for _, name := range pkg.GoFiles {
		f, perr := parser.ParseFile(fset, filepath.Join(pkg.Dir, name), nil, 0)
		if perr != nil {
			return nil, 0, perr
		}
		imports := map[string]string{}
		for _, im := range f.Imports {
			path, _ := strconv.Unquote(im.Path.Value)
			local := path[strings.LastIndex(path, "/")+1:]
			if im.Name != nil {
				local = im.Name.Name
			}
			imports[local] = path
		}
		for _, d := range f.Decls {
			if fd, ok := d.(*ast.FuncDecl); ok && fd.Recv == nil && fd.Body != nil {
				funcs[fd.Name.Name] = fn{fd, imports, name}
			}
		}
	}
	seen := map[string]bool{}
	queue := []string{"Supported", "SetNoNewPrivs", "LoadFilter"}
	for len(queue) > 0 {
		name := queue[0]
		queue = queue[1:]
		f, ok := funcs[name]
		if seen[name] || !ok {
			continue
		}
		seen[name] = true
		inspected++
		ast.Inspect(f.decl.Body, func(n ast.Node) bool {
			call, ok := n.(*ast.CallExpr)
			if !ok {
				return true
			}
			switch fun := call.Fun.(type) {
			case *ast.Ident:
				queue = append(queue, fun.Name)
			case *ast.SelectorExpr:
				if x, ok := fun.X.(*ast.Ident); ok && x.Obj == nil {
					if path, ok := f.imports[x.Name]; ok && c19IsOSPackage(path) && fun.Sel.Name != "Errno" && fun.Sel.Name != "Signal" {
						found = append(found, fmt.Sprintf("%s (%s) calls %s.%s", name, f.file, path, fun.Sel.Name))
					}
				}
			}
			return true
		})
	}
	sort.Strings(found)
	return found, inspected, nil
}
