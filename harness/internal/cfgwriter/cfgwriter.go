// Package cfgwriter renders a policy into the documented YAML configuration
// dialect (as in cmd/sandbox/seccomp.yml) with generated spelling: letter case
// of actions and operations, decimal or hex operands, block or flow lists, key
// order, omitted defaults. It is written from the documentation, not from the
// library's struct tags.
package cfgwriter

import (
	"fmt"
	"strings"

	"verif/harness/internal/gen"
	"verif/harness/internal/oracle"
	"verif/harness/internal/spec"
)

func spell(r *gen.Rng, s string) string {
	switch r.Intn(4) {
	case 0:
		return s
	case 1:
		return strings.ToUpper(s)
	case 2:
		return strings.ToLower(s)
	}
	b := []byte(s)
	for i := range b {
		if r.Intn(2) == 0 {
			if b[i] >= 'a' && b[i] <= 'z' {
				b[i] -= 32
			} else if b[i] >= 'A' && b[i] <= 'Z' {
				b[i] += 32
			}
		}
	}
	return string(b)
}

func num(r *gen.Rng, v uint64) string {
	switch r.Intn(3) {
	case 0:
		return fmt.Sprintf("%d", v)
	case 1:
		return fmt.Sprintf("0x%x", v)
	}
	return fmt.Sprintf("0x%X", v)
}

func permute(r *gen.Rng, items []string) []string {
	out := append([]string(nil), items...)
	for i := len(out) - 1; i > 0; i-- {
		j := r.Intn(i + 1)
		out[i], out[j] = out[j], out[i]
	}
	return out
}

func indent(s, pad string) string {
	lines := strings.Split(strings.TrimRight(s, "\n"), "\n")
	for i := range lines {
		lines[i] = pad + lines[i]
	}
	return strings.Join(lines, "\n") + "\n"
}

// listItem turns a block of "key: value" lines into one YAML sequence item.
func listItem(block string) string {
	lines := strings.Split(strings.TrimRight(block, "\n"), "\n")
	for i := range lines {
		if i == 0 {
			lines[i] = "- " + lines[i]
		} else {
			lines[i] = "  " + lines[i]
		}
	}
	return strings.Join(lines, "\n") + "\n"
}

// YAML renders the policy below the top-level key "seccomp".
func YAML(p *spec.Policy, seed uint64) string { return YAMLExtra(p, seed, nil) }

// YAMLExtra is YAML with further keys in the group mappings: extra(gi) returns complete "key: value\n" lines (or "") for
// group gi, placed among the documented keys in generated order. The documented dialect has no such keys.
func YAMLExtra(p *spec.Policy, seed uint64, extra func(gi int) string) string {
	r := gen.NewRng(seed)
	var groups strings.Builder
	for gi, g := range p.Groups {
		parts := map[string]string{}
		keys := []string{"action"}
		if extra != nil {
			if x := extra(gi); x != "" {
				keys = append(keys, "extra")
				parts["extra"] = x
			}
		}
		parts["action"] = "action: " + spell(r, oracle.ActionName(g.Action)) + "\n"
		if len(g.Names) > 0 || r.Intn(3) == 0 {
			keys = append(keys, "names")
			if len(g.Names) == 0 {
				parts["names"] = "names: []\n"
			} else if r.Intn(3) == 0 {
				parts["names"] = "names: [" + strings.Join(g.Names, ", ") + "]\n"
			} else {
				var b strings.Builder
				b.WriteString("names:\n")
				for _, n := range g.Names {
					b.WriteString("- " + n + "\n")
				}
				parts["names"] = b.String()
			}
		}
		if len(g.Conds) > 0 {
			keys = append(keys, "names_with_args")
			var b strings.Builder
			b.WriteString("names_with_args:\n")
			for _, ce := range g.Conds {
				var args strings.Builder
				args.WriteString("arguments:\n")
				for _, c := range ce.Conds {
					ck := []string{"operation"}
					cp := map[string]string{"operation": "operation: " + spell(r, c.Op) + "\n"}
					if c.Arg != 0 || r.Intn(2) == 0 {
						ck = append(ck, "argument")
						cp["argument"] = fmt.Sprintf("argument: %d\n", c.Arg)
					}
					if c.Val != 0 || r.Intn(2) == 0 {
						ck = append(ck, "value")
						cp["value"] = "value: " + num(r, c.Val) + "\n"
					}
					if r.Intn(4) == 0 {
						// flow mapping
						var fl []string
						for _, k := range permute(r, ck) {
							fl = append(fl, strings.TrimRight(cp[k], "\n"))
						}
						args.WriteString("- {" + strings.Join(fl, ", ") + "}\n")
					} else {
						var blk strings.Builder
						for _, k := range permute(r, ck) {
							blk.WriteString(cp[k])
						}
						args.WriteString(listItem(blk.String()))
					}
				}
				var entry strings.Builder
				if r.Intn(2) == 0 {
					entry.WriteString("name: " + ce.Name + "\n")
					entry.WriteString(args.String())
				} else {
					entry.WriteString(args.String())
					entry.WriteString("name: " + ce.Name + "\n")
				}
				b.WriteString(listItem(entry.String()))
			}
			parts["names_with_args"] = b.String()
		}
		var blk strings.Builder
		for _, k := range permute(r, keys) {
			blk.WriteString(parts[k])
		}
		groups.WriteString(listItem(blk.String()))
	}
	def := "default_action: " + spell(r, oracle.ActionName(p.Default)) + "\n"
	sys := "syscalls:\n" + groups.String()
	body := def + sys
	if r.Intn(2) == 0 {
		body = sys + def
	}
	head := ""
	if r.Intn(3) == 0 {
		head = "# generated policy\n"
	}
	return head + "seccomp:\n" + indent(body, "  ")
}
