// Package cbpf is an independent classic-BPF interpreter for seccomp programs
// in their raw (kernel) encoding, and a port of the kernel's seccomp filter
// verifier (bpf_check_classic + seccomp_check_filter). Nothing here comes from
// golang.org/x/net/bpf except the RawInstruction struct layout.
package cbpf

import (
	"errors"
	"fmt"
)

// Raw is one instruction in the kernel's sock_filter layout.
type Raw struct {
	Op uint16
	Jt uint8
	Jf uint8
	K  uint32
}

// instruction classes and fields (linux/bpf_common.h, linux/filter.h)
const (
	clsLD   = 0x00
	clsLDX  = 0x01
	clsST   = 0x02
	clsSTX  = 0x03
	clsALU  = 0x04
	clsJMP  = 0x05
	clsRET  = 0x06
	clsMISC = 0x07

	szW = 0x00
	szH = 0x08
	szB = 0x10

	mIMM = 0x00
	mABS = 0x20
	mIND = 0x40
	mMEM = 0x60
	mLEN = 0x80
	mMSH = 0xa0

	aADD = 0x00
	aSUB = 0x10
	aMUL = 0x20
	aDIV = 0x30
	aOR  = 0x40
	aAND = 0x50
	aLSH = 0x60
	aRSH = 0x70
	aNEG = 0x80
	aMOD = 0x90
	aXOR = 0xa0

	jJA   = 0x00
	jJEQ  = 0x10
	jJGT  = 0x20
	jJGE  = 0x30
	jJSET = 0x40

	srcK = 0x00
	srcX = 0x08
	srcA = 0x10 // BPF_RET only

	miscTAX = 0x00
	miscTXA = 0x80

	// MaxInsns is BPF_MAXINSNS.
	MaxInsns = 4096
	memWords = 16
	dataSize = 64
)

// Exported opcodes used by tests that build or mutate programs.
const (
	OpLdWAbs = clsLD | szW | mABS
	OpLdHAbs = clsLD | szH | mABS
	OpLdBAbs = clsLD | szB | mABS
	OpLdWInd = clsLD | szW | mIND
	OpLdImm  = clsLD | mIMM
	OpLdMem  = clsLD | mMEM
	OpLdLen  = clsLD | szW | mLEN
	OpLdxImm = clsLDX | mIMM
	OpLdxMem = clsLDX | mMEM
	OpLdxMsh = clsLDX | szB | mMSH
	OpSt     = clsST
	OpStx    = clsSTX
	OpJa     = clsJMP | jJA
	OpJeqK   = clsJMP | jJEQ | srcK
	OpJgtK   = clsJMP | jJGT | srcK
	OpJgeK   = clsJMP | jJGE | srcK
	OpJsetK  = clsJMP | jJSET | srcK
	OpJeqX   = clsJMP | jJEQ | srcX
	OpRetK   = clsRET | srcK
	OpRetA   = clsRET | srcA
	OpRetX   = clsRET | srcX
	OpAddK   = clsALU | aADD | srcK
	OpDivK   = clsALU | aDIV | srcK
	OpModK   = clsALU | aMOD | srcK
	OpLshK   = clsALU | aLSH | srcK
	OpNeg    = clsALU | aNEG
	OpTax    = clsMISC | miscTAX
	OpTxa    = clsMISC | miscTXA
)

// Step records one executed instruction.
type Step struct {
	PC int
	In Raw
}

// ErrExec is returned for any behaviour the kernel's verifier exists to rule
// out (pc out of range, bad load, ...). The interpreter never tolerates them.
var ErrExec = errors.New("cbpf: invalid execution")

// Run executes prog on the 16 native-order words of seccomp_data. If trace is
// non-nil the executed instructions are appended to it.
func Run(prog []Raw, w *[16]uint32, trace *[]Step) (uint32, error) {
	return RunWith(prog, func(off uint32) (uint32, error) {
		if off%4 != 0 || off >= dataSize {
			return 0, fmt.Errorf("load at offset %d", off)
		}
		return w[off/4], nil
	}, trace)
}

// RunWith is Run with the 32-bit absolute load supplied by the caller (the
// label-program check uses load offsets as instruction identities).
func RunWith(prog []Raw, load func(off uint32) (uint32, error), trace *[]Step) (uint32, error) {
	var a, x uint32
	var mem [memWords]uint32
	pc := 0
	for steps := 0; ; steps++ {
		if pc < 0 || pc >= len(prog) {
			return 0, fmt.Errorf("%w: pc %d outside program of %d instructions", ErrExec, pc, len(prog))
		}
		if steps > len(prog) {
			return 0, fmt.Errorf("%w: more steps than instructions (backward jump)", ErrExec)
		}
		in := prog[pc]
		if trace != nil {
			*trace = append(*trace, Step{pc, in})
		}
		switch in.Op & 0x07 {
		case clsLD:
			switch in.Op {
			case clsLD | szW | mABS:
				v, err := load(in.K)
				if err != nil {
					return 0, fmt.Errorf("%w: pc %d: %v", ErrExec, pc, err)
				}
				a = v
			case clsLD | szW | mLEN:
				a = dataSize
			case clsLD | mIMM:
				a = in.K
			case clsLD | mMEM:
				if in.K >= memWords {
					return 0, fmt.Errorf("%w: pc %d mem index %d", ErrExec, pc, in.K)
				}
				a = mem[in.K]
			default:
				return 0, fmt.Errorf("%w: pc %d opcode %#x not permitted in seccomp filters", ErrExec, pc, in.Op)
			}
			pc++
		case clsLDX:
			switch in.Op {
			case clsLDX | szW | mLEN:
				x = dataSize
			case clsLDX | mIMM:
				x = in.K
			case clsLDX | mMEM:
				if in.K >= memWords {
					return 0, fmt.Errorf("%w: pc %d mem index %d", ErrExec, pc, in.K)
				}
				x = mem[in.K]
			default:
				return 0, fmt.Errorf("%w: pc %d opcode %#x not permitted in seccomp filters", ErrExec, pc, in.Op)
			}
			pc++
		case clsST:
			if in.Op != clsST || in.K >= memWords {
				return 0, fmt.Errorf("%w: pc %d bad store", ErrExec, pc)
			}
			mem[in.K] = a
			pc++
		case clsSTX:
			if in.Op != clsSTX || in.K >= memWords {
				return 0, fmt.Errorf("%w: pc %d bad store", ErrExec, pc)
			}
			mem[in.K] = x
			pc++
		case clsALU:
			src := in.K
			if in.Op&srcX != 0 {
				src = x
			}
			switch in.Op & 0xf0 {
			case aADD:
				a += src
			case aSUB:
				a -= src
			case aMUL:
				a *= src
			case aDIV:
				if src == 0 {
					return 0, nil // kernel: division by zero in X returns 0 from the filter
				}
				a /= src
			case aOR:
				a |= src
			case aAND:
				a &= src
			case aLSH:
				a <<= src & 31
				if src >= 32 {
					a = 0
				}
			case aRSH:
				a >>= src & 31
				if src >= 32 {
					a = 0
				}
			case aNEG:
				a = -a
			case aXOR:
				a ^= src
			default:
				return 0, fmt.Errorf("%w: pc %d opcode %#x not permitted in seccomp filters", ErrExec, pc, in.Op)
			}
			pc++
		case clsJMP:
			src := in.K
			if in.Op&srcX != 0 {
				src = x
			}
			var c bool
			switch in.Op & 0xf0 {
			case jJA:
				if in.Op != clsJMP|jJA {
					return 0, fmt.Errorf("%w: pc %d bad ja", ErrExec, pc)
				}
				pc += 1 + int(in.K)
				continue
			case jJEQ:
				c = a == src
			case jJGT:
				c = a > src
			case jJGE:
				c = a >= src
			case jJSET:
				c = a&src != 0
			default:
				return 0, fmt.Errorf("%w: pc %d opcode %#x not permitted in seccomp filters", ErrExec, pc, in.Op)
			}
			if c {
				pc += 1 + int(in.Jt)
			} else {
				pc += 1 + int(in.Jf)
			}
		case clsRET:
			switch in.Op {
			case clsRET | srcK:
				return in.K, nil
			case clsRET | srcA:
				return a, nil
			}
			return 0, fmt.Errorf("%w: pc %d bad ret %#x", ErrExec, pc, in.Op)
		case clsMISC:
			switch in.Op {
			case clsMISC | miscTAX:
				x = a
			case clsMISC | miscTXA:
				a = x
			default:
				return 0, fmt.Errorf("%w: pc %d bad misc %#x", ErrExec, pc, in.Op)
			}
			pc++
		}
	}
}

// codes accepted by bpf_check_classic's chk_code_allowed.
var classicAllowed = map[uint16]bool{}

func init() {
	for _, alu := range []uint16{aADD, aSUB, aMUL, aDIV, aMOD, aAND, aOR, aXOR, aLSH, aRSH} {
		classicAllowed[clsALU|alu|srcK] = true
		classicAllowed[clsALU|alu|srcX] = true
	}
	classicAllowed[clsALU|aNEG] = true
	for _, c := range []uint16{
		clsLD | szW | mABS, clsLD | szH | mABS, clsLD | szB | mABS,
		clsLD | szW | mLEN,
		clsLD | szW | mIND, clsLD | szH | mIND, clsLD | szB | mIND,
		clsLD | mIMM, clsLD | mMEM,
		clsLDX | szW | mLEN, clsLDX | szB | mMSH, clsLDX | mIMM, clsLDX | mMEM,
		clsST, clsSTX,
		clsMISC | miscTAX, clsMISC | miscTXA,
		clsRET | srcK, clsRET | srcA,
		clsJMP | jJA,
	} {
		classicAllowed[c] = true
	}
	for _, j := range []uint16{jJEQ, jJGE, jJGT, jJSET} {
		classicAllowed[clsJMP|j|srcK] = true
		classicAllowed[clsJMP|j|srcX] = true
	}
}

// codes accepted by seccomp_check_filter (after rewriting the loads).
var seccompAllowed = map[uint16]bool{}

func init() {
	for _, alu := range []uint16{aADD, aSUB, aMUL, aDIV, aAND, aOR, aXOR, aLSH, aRSH} {
		seccompAllowed[clsALU|alu|srcK] = true
		seccompAllowed[clsALU|alu|srcX] = true
	}
	seccompAllowed[clsALU|aNEG] = true
	for _, c := range []uint16{
		clsRET | srcK, clsRET | srcA,
		clsLD | mIMM, clsLDX | mIMM, clsMISC | miscTAX, clsMISC | miscTXA,
		clsLD | mMEM, clsLDX | mMEM, clsST, clsSTX,
		clsJMP | jJA,
		clsLD | szW | mABS, clsLD | szW | mLEN, clsLDX | szW | mLEN,
	} {
		seccompAllowed[c] = true
	}
	for _, j := range []uint16{jJEQ, jJGE, jJGT, jJSET} {
		seccompAllowed[clsJMP|j|srcK] = true
		seccompAllowed[clsJMP|j|srcX] = true
	}
}

// Verify reports why the kernel (seccomp(2), SECCOMP_SET_MODE_FILTER) would
// refuse the program with EINVAL, or nil if it would accept it.
func Verify(prog []Raw) error {
	n := len(prog)
	if n == 0 || n > MaxInsns {
		return fmt.Errorf("program length %d outside 1..%d", n, MaxInsns)
	}
	// bpf_check_classic
	for pc, in := range prog {
		if !classicAllowed[in.Op] {
			return fmt.Errorf("pc %d: opcode %#x not a classic BPF instruction", pc, in.Op)
		}
		switch in.Op {
		case clsALU | aDIV | srcK, clsALU | aMOD | srcK:
			if in.K == 0 {
				return fmt.Errorf("pc %d: division by constant zero", pc)
			}
		case clsALU | aLSH | srcK, clsALU | aRSH | srcK:
			if in.K >= 32 {
				return fmt.Errorf("pc %d: shift by %d", pc, in.K)
			}
		case clsLD | mMEM, clsLDX | mMEM, clsST, clsSTX:
			if in.K >= memWords {
				return fmt.Errorf("pc %d: scratch index %d", pc, in.K)
			}
		case clsJMP | jJA:
			if uint64(in.K) >= uint64(n-pc-1) {
				return fmt.Errorf("pc %d: ja %d beyond end", pc, in.K)
			}
		case clsJMP | jJEQ | srcK, clsJMP | jJEQ | srcX, clsJMP | jJGE | srcK, clsJMP | jJGE | srcX,
			clsJMP | jJGT | srcK, clsJMP | jJGT | srcX, clsJMP | jJSET | srcK, clsJMP | jJSET | srcX:
			if pc+int(in.Jt)+1 >= n || pc+int(in.Jf)+1 >= n {
				return fmt.Errorf("pc %d: conditional jump (jt %d, jf %d) beyond end", pc, in.Jt, in.Jf)
			}
		}
	}
	last := prog[n-1].Op
	if last != clsRET|srcK && last != clsRET|srcA {
		return fmt.Errorf("last instruction %#x is not a return", last)
	}
	if err := checkLoadAndStores(prog); err != nil {
		return err
	}
	// seccomp_check_filter
	for pc, in := range prog {
		if in.Op == clsLD|szW|mABS {
			if in.K >= dataSize || in.K&3 != 0 {
				return fmt.Errorf("pc %d: load offset %d outside/unaligned in seccomp_data", pc, in.K)
			}
			continue
		}
		if !seccompAllowed[in.Op] {
			return fmt.Errorf("pc %d: opcode %#x not permitted in seccomp filters", pc, in.Op)
		}
	}
	return nil
}

// check_load_and_stores of net/core/filter.c: every scratch cell that is read
// must have been written on all paths leading there.
func checkLoadAndStores(prog []Raw) error {
	n := len(prog)
	masks := make([]uint16, n)
	memvalid := uint16(0)
	for i := range masks {
		masks[i] = 0xffff
	}
	for pc, in := range prog {
		memvalid &= masks[pc]
		switch in.Op {
		case clsST, clsSTX:
			memvalid |= 1 << in.K
		case clsLD | mMEM, clsLDX | mMEM:
			if memvalid&(1<<in.K) == 0 {
				return fmt.Errorf("pc %d: scratch cell %d read before written", pc, in.K)
			}
		case clsJMP | jJA:
			masks[pc+1+int(in.K)] &= memvalid
			memvalid = 0xffff
		case clsJMP | jJEQ | srcK, clsJMP | jJEQ | srcX, clsJMP | jJGE | srcK, clsJMP | jJGE | srcX,
			clsJMP | jJGT | srcK, clsJMP | jJGT | srcX, clsJMP | jJSET | srcK, clsJMP | jJSET | srcX:
			masks[pc+1+int(in.Jt)] &= memvalid
			masks[pc+1+int(in.Jf)] &= memvalid
			memvalid = 0xffff
		}
	}
	return nil
}

// Returns lists the distinct constants of all RET K instructions, and reports
// whether the program contains a RET that is not RET K.
func Returns(prog []Raw) (vals []uint32, nonConst bool) {
	seen := map[uint32]bool{}
	for _, in := range prog {
		if in.Op&0x07 == clsRET {
			if in.Op != clsRET|srcK {
				nonConst = true
				continue
			}
			if !seen[in.K] {
				seen[in.K] = true
				vals = append(vals, in.K)
			}
		}
	}
	return
}

// IsLoad reports whether the instruction is LD W ABS and returns its offset.
func (r Raw) IsLoad() (uint32, bool) { return r.K, r.Op == clsLD|szW|mABS }

// IsRetK reports whether the instruction is RET K.
func (r Raw) IsRetK() bool { return r.Op == clsRET|srcK }

// IsJa reports whether the instruction is an unconditional jump.
func (r Raw) IsJa() bool { return r.Op == clsJMP|jJA }

// IsCondJump reports whether the instruction is a conditional jump.
func (r Raw) IsCondJump() bool { return r.Op&0x07 == clsJMP && r.Op != clsJMP|jJA }

// FromX converts golang.org/x/net/bpf raw instructions (anything with the
// same four fields) into Raw; kept generic to avoid importing x/net here.
func FromFields(op uint16, jt, jf uint8, k uint32) Raw { return Raw{op, jt, jf, k} }

// SweepNr runs prog for every syscall number in [from, to] (inclusive) with the
// other words of seccomp_data fixed, and calls mismatch(nr, got) whenever the
// result differs from want(nr). want is called with strictly increasing nr. It
// is a specialised loop for programs made of LD W ABS / Jcc K / JA / RET K (what
// the compiler emits); any other instruction makes it return an error.
func SweepNr(prog []Raw, w [16]uint32, from, to uint32, want func(nr uint32) uint32, mismatch func(nr, got uint32) bool) error {
	for _, in := range prog {
		switch in.Op {
		case clsLD | szW | mABS:
			if in.K%4 != 0 || in.K >= dataSize {
				return fmt.Errorf("%w: load at offset %d", ErrExec, in.K)
			}
		case clsJMP | jJA, clsJMP | jJEQ | srcK, clsJMP | jJGT | srcK, clsJMP | jJGE | srcK, clsJMP | jJSET | srcK, clsRET | srcK:
		default:
			return fmt.Errorf("%w: opcode %#x not handled by the sweep", ErrExec, in.Op)
		}
	}
	n := len(prog)
	for nr := from; ; nr++ {
		w[0] = nr
		var a uint32
		pc := 0
		var ret uint32
	exec:
		for {
			if pc >= n {
				return fmt.Errorf("%w: pc %d outside program (nr %d)", ErrExec, pc, nr)
			}
			in := &prog[pc]
			switch in.Op {
			case clsLD | szW | mABS:
				a = w[in.K/4]
				pc++
			case clsJMP | jJEQ | srcK:
				if a == in.K {
					pc += 1 + int(in.Jt)
				} else {
					pc += 1 + int(in.Jf)
				}
			case clsJMP | jJGT | srcK:
				if a > in.K {
					pc += 1 + int(in.Jt)
				} else {
					pc += 1 + int(in.Jf)
				}
			case clsJMP | jJGE | srcK:
				if a >= in.K {
					pc += 1 + int(in.Jt)
				} else {
					pc += 1 + int(in.Jf)
				}
			case clsJMP | jJSET | srcK:
				if a&in.K != 0 {
					pc += 1 + int(in.Jt)
				} else {
					pc += 1 + int(in.Jf)
				}
			case clsJMP | jJA:
				pc += 1 + int(in.K)
			case clsRET | srcK:
				ret = in.K
				break exec
			}
		}
		if wv := want(nr); ret != wv {
			if mismatch(nr, ret) {
				return nil
			}
		}
		if nr == to {
			return nil
		}
	}
}
