// Package kchild runs the throw-away child processes that talk to the real
// kernel. The test process itself never loads a filter.
package kchild

import (
	"bytes"
	"context"
	"encoding/binary"
	"fmt"
	"os"
	"os/exec"
	"strings"
	"time"

	"verif/harness/internal/cbpf"
)

// Bin returns the path of a helper binary built by the driver.
func Bin(name string) (string, error) {
	p := os.Getenv("VERIF_BIN_" + strings.ToUpper(strings.ReplaceAll(name, "-", "_")))
	if p == "" {
		return "", fmt.Errorf("helper %s was not built (VERIF_BIN_%s unset)", name, strings.ToUpper(name))
	}
	return p, nil
}

// KernelVerdict asks the kernel whether it accepts the raw program.
// accepted=false comes with the errno. err != nil means the helper failed
// (inconclusive).
func KernelVerdict(prog []cbpf.Raw) (accepted bool, errno int, err error) {
	bin, err := Bin("kverify")
	if err != nil {
		return false, 0, err
	}
	buf := make([]byte, 8*len(prog))
	for i, in := range prog {
		binary.LittleEndian.PutUint16(buf[i*8:], in.Op)
		buf[i*8+2] = in.Jt
		buf[i*8+3] = in.Jf
		binary.LittleEndian.PutUint32(buf[i*8+4:], in.K)
	}
	// a helper that gives no verdict (time limit on a loaded machine) is asked again, with more patience
	var ret int
	var lastErr error
	for attempt, limit := range []time.Duration{20 * time.Second, 60 * time.Second, 120 * time.Second} {
		ctx, cancel := context.WithTimeout(context.Background(), limit)
		cmd := exec.CommandContext(ctx, bin)
		cmd.Env = append(os.Environ(), "GODEBUG=asyncpreemptoff=1", "GOGC=off", "GOMAXPROCS=2")
		cmd.Stdin = bytes.NewReader(buf)
		cmd.WaitDelay = 2 * time.Second
		out, runErr := cmd.Output()
		cancel()
		if _, e := fmt.Sscanf(string(out), "ret=%d errno=%d", &ret, &errno); e == nil {
			lastErr = nil
			break
		}
		lastErr = fmt.Errorf("kverify gave no verdict (attempt %d, output %q, %v)", attempt+1, string(out), runErr)
	}
	if lastErr != nil {
		return false, 0, lastErr
	}
	return ret == 0 && errno == 0, errno, nil
}
