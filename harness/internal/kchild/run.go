package kchild

import (
	"bufio"
	"bytes"
	"context"
	"encoding/json"
	"fmt"
	"os"
	"os/exec"
	"path/filepath"
	"regexp"
	"strconv"
	"strings"
	"syscall"
	"time"

	"verif/harness/internal/kjob"
)

// RunOpts selects how the child is started.
type RunOpts struct {
	GOARCH string // "" / "amd64" or "386"
	Uid    int    // 0 = unchanged, otherwise uid and gid to switch to
	Strace bool   // run under strace -f -e trace=prctl,seccomp -e raw=seccomp
	// Inject (with Strace): a strace fault injection, e.g. "seccomp:error=ENOSYS": the system call fails in every thread
	// of the child without any seccomp filter being involved (what a kernel without the call looks like)
	Inject  string
	Timeout time.Duration
	// HideSysctl (root, without strace): the child starts in a mount namespace of its own in which /proc/sys/kernel/seccomp
	// is covered by an empty file system (a container with a masked /proc/sys). The child says whether that worked.
	HideSysctl bool
	Env     []string
}

// SysCall is one line of the strace log.
type SysCall struct {
	Tid  int
	Name string
	Args []string // raw (hex) for seccomp, decoded for prctl
	Ret  string
}

// RunResult is everything observed about one child.
type RunResult struct {
	Events   []kjob.Event
	Exit     int
	Signaled bool
	Signal   syscall.Signal
	TimedOut bool
	Stderr   string
	Strace   []SysCall
}

// Find returns the events of a step with the given name.
func (r *RunResult) Find(step int, ev string) []kjob.Event {
	var out []kjob.Event
	for _, e := range r.Events {
		if e.Step == step && e.Ev == ev {
			out = append(out, e)
		}
	}
	return out
}

// Done reports whether the child ran to the end of its job.
func (r *RunResult) Done() bool {
	for _, e := range r.Events {
		if e.Ev == "done" {
			return true
		}
	}
	return false
}

var straceLine = regexp.MustCompile(`^(\d+)\s+(\w+)\((.*)\)\s+=\s+(.*)$`)

func tmpDir() string {
	if d := os.Getenv("VERIF_TMP"); d != "" {
		return d
	}
	return os.TempDir()
}

// Timeouts counts the children that did not finish in time and were re-run.
var Timeouts int

// LastTimeoutDump is the stderr (goroutine dump after SIGQUIT) of the last child that timed out.
var LastTimeoutDump string

// Run executes one job in a fresh child process. A child that does not finish
// in time says nothing about the property: it is re-run (twice at most).
func Run(job *kjob.Job, o RunOpts) (*RunResult, error) {
	var r *RunResult
	var err error
	base := o.Timeout
	if base == 0 {
		base = 30 * time.Second
	}
	for attempt := 0; attempt < 3; attempt++ {
		o.Timeout = base << uint(attempt) // a loaded machine: the later attempts are given two and four times as long
		r, err = runOnce(job, o)
		if err != nil || !r.TimedOut {
			return r, err
		}
		if _, strict := r.StrictModeEntered(); strict {
			return r, err // the trace explains the hang: more time will not help
		}
		Timeouts++
		LastTimeoutDump = r.Stderr
	}
	return r, err
}

func runOnce(job *kjob.Job, o RunOpts) (*RunResult, error) {
	name := "kchild"
	if o.GOARCH == "386" {
		name = "kchild_386"
	}
	bin, err := Bin(name)
	if err != nil {
		return nil, err
	}
	dir, err := os.MkdirTemp(tmpDir(), "kjob")
	if err != nil {
		return nil, err
	}
	defer os.RemoveAll(dir)
	os.Chmod(dir, 0o755)
	jobPath := filepath.Join(dir, "job.json")
	b, _ := json.Marshal(job)
	if err := os.WriteFile(jobPath, b, 0o644); err != nil {
		return nil, err
	}
	if o.Timeout == 0 {
		o.Timeout = 30 * time.Second
	}
	ctx, cancel := context.WithTimeout(context.Background(), o.Timeout)
	defer cancel()
	var cmd *exec.Cmd
	tracePath := filepath.Join(dir, "strace.log")
	if o.Strace {
		args := []string{"-f", "-o", tracePath, "-e", "trace=prctl,seccomp", "-e", "raw=seccomp", "-e", "signal=none"}
		if o.Inject != "" {
			args = append(args, "-e", "inject="+o.Inject)
		}
		if o.Uid != 0 {
			args = append(args, "-u", "nobody")
		}
		args = append(args, bin, jobPath)
		cmd = exec.CommandContext(ctx, "strace", args...)
	} else if o.HideSysctl && o.Uid == 0 {
		// (where a mount namespace cannot be had the child simply runs as it is and reports the sysctl as visible)
		cmd = exec.CommandContext(ctx, "sh", "-c", `if unshare -m --propagation private true 2>/dev/null; then exec unshare -m --propagation private sh -c 'mount -t tmpfs tmpfs /proc/sys/kernel/seccomp 2>/dev/null; exec "$0" "$1"' "$0" "$1"; else exec "$0" "$1"; fi`, bin, jobPath)
	} else {
		cmd = exec.CommandContext(ctx, bin, jobPath)
		if o.Uid != 0 {
			cmd.SysProcAttr = &syscall.SysProcAttr{Credential: &syscall.Credential{Uid: uint32(o.Uid), Gid: uint32(o.Uid)}}
		}
	}
	cmd.Env = append([]string{"PATH=/usr/bin:/bin", "HOME=/nonexistent", "GOGC=off"}, o.Env...)
	var stdout, stderr bytes.Buffer
	cmd.Stdout, cmd.Stderr = &stdout, &stderr
	// on timeout kill the whole process group (strace and its tracee) and do not wait for ever for the pipes
	if cmd.SysProcAttr == nil {
		cmd.SysProcAttr = &syscall.SysProcAttr{}
	}
	cmd.SysProcAttr.Setpgid = true
	cmd.Cancel = func() error {
		// ask the Go runtime of the child for a goroutine dump first (diagnostics of a hang), then kill the group
		syscall.Kill(cmd.Process.Pid, syscall.SIGQUIT)
		time.Sleep(300 * time.Millisecond)
		return syscall.Kill(-cmd.Process.Pid, syscall.SIGKILL)
	}
	cmd.WaitDelay = 3 * time.Second
	runErr := cmd.Run()
	res := &RunResult{Stderr: stderr.String()}
	if ctx.Err() == context.DeadlineExceeded {
		res.TimedOut = true
	}
	if ee, ok := runErr.(*exec.ExitError); ok {
		if ws, ok := ee.Sys().(syscall.WaitStatus); ok {
			if ws.Signaled() {
				res.Signaled, res.Signal = true, ws.Signal()
			} else {
				res.Exit = ws.ExitStatus()
			}
		}
	} else if runErr != nil {
		return nil, fmt.Errorf("cannot run %s: %v", bin, runErr)
	}
	sc := bufio.NewScanner(&stdout)
	sc.Buffer(make([]byte, 1<<20), 1<<26)
	for sc.Scan() {
		var e kjob.Event
		if json.Unmarshal(sc.Bytes(), &e) == nil && e.Ev != "" {
			res.Events = append(res.Events, e)
		}
	}
	if o.Strace {
		tb, _ := os.ReadFile(tracePath)
		pending := map[int]string{}
		for _, l := range strings.Split(string(tb), "\n") {
			// stitch "<unfinished ...>" / "<... resumed>" pairs
			if i := strings.Index(l, " <unfinished ...>"); i >= 0 {
				f := strings.SplitN(l, " ", 2)
				if tid, err := strconv.Atoi(f[0]); err == nil {
					pending[tid] = strings.TrimSpace(l[:i])
				}
				continue
			}
			if strings.Contains(l, "resumed>") {
				f := strings.Fields(l)
				if tid, err := strconv.Atoi(f[0]); err == nil {
					if p, ok := pending[tid]; ok {
						j := strings.Index(l, "resumed>")
						l = p + l[j+len("resumed>"):]
						delete(pending, tid)
					}
				}
			}
			m := straceLine.FindStringSubmatch(strings.TrimSpace(l))
			if m == nil {
				continue
			}
			tid, _ := strconv.Atoi(m[1])
			var args []string
			for _, a := range strings.Split(m[3], ",") {
				args = append(args, strings.TrimSpace(a))
			}
			res.Strace = append(res.Strace, SysCall{Tid: tid, Name: m[2], Args: args, Ret: m[4]})
		}
		// strace reports the child's death through its own exit status / signal
		if strings.Contains(string(tb), "+++ killed by SIGSYS") {
			res.Signaled, res.Signal = true, syscall.SIGSYS
		}
	}
	return res, nil
}

// StrictModeEntered reports a successful prctl(PR_SET_SECCOMP, SECCOMP_MODE_STRICT) or seccomp(SECCOMP_SET_MODE_STRICT)
// seen by strace (the helper itself never makes such a call; a thread in strict mode is killed at its next system call
// other than read, write, exit and sigreturn, which usually wedges the Go runtime).
func (r *RunResult) StrictModeEntered() (SysCall, bool) {
	for _, s := range r.Strace {
		if strings.TrimSpace(s.Ret) != "0" {
			continue
		}
		if s.Name == "prctl" && len(s.Args) >= 2 && strings.Contains(s.Args[0], "PR_SET_SECCOMP") && (strings.Contains(s.Args[1], "SECCOMP_MODE_STRICT") || s.Args[1] == "1" || s.Args[1] == "0x1") {
			return s, true
		}
		if s.Name == "seccomp" && len(s.Args) >= 1 && (s.Args[0] == "0" || s.Args[0] == "0x0" || strings.Contains(s.Args[0], "SECCOMP_SET_MODE_STRICT")) {
			return s, true
		}
	}
	return SysCall{}, false
}
