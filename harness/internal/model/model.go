// Package model is the reference decision procedure: what a seccomp filter
// compiled from a policy has to answer for an event. It is written from the
// property statements and the README, and takes its numbers and constants from
// the vendored oracle, not from the library.
package model

import (
	"fmt"

	"verif/harness/internal/oracle"
	"verif/harness/internal/spec"
)

// Info explains a decision (used to classify cases).
type Info struct {
	Foreign     bool // architecture word differs from the policy's
	X32         bool // x86_64 policy, nr carries the x32 bit
	Group       int  // index of the deciding group, -1 = default
	Conditional bool // decided by a conditional entry
	FellThrough int  // conditional entries for this nr (in groups up to the deciding one) that did not match
	ListedBy    int  // number of groups that mention nr at all
	Overlap     bool // nr mentioned by >= 2 groups with different actions
}

// Ret encodes an action as the filter return value.
func Ret(action uint32) uint32 {
	if action == oracle.Const("SECCOMP_RET_ERRNO") {
		return action | oracle.Const("EPERM")
	}
	return action
}

// EvalCond evaluates one condition on an unsigned 64-bit argument.
func EvalCond(op string, arg, v uint64) (bool, error) {
	switch op {
	case "Equal":
		return arg == v, nil
	case "NotEqual":
		return arg != v, nil
	case "GreaterThan":
		return arg > v, nil
	case "LessThan":
		return arg < v, nil
	case "GreaterOrEqual":
		return arg >= v, nil
	case "LessOrEqual":
		return arg <= v, nil
	case "BitsSet":
		return arg&v != 0, nil
	case "BitsNotSet":
		return arg&v == 0, nil
	}
	return false, fmt.Errorf("model: unknown operation %q", op)
}

// Number resolves a name for the policy's architecture from the oracle table.
func Number(arch, name string) (uint32, bool) {
	n, ok := oracle.Table(arch)[name]
	return uint32(n), ok
}

// Decide returns the value the filter must return for the event.
// All names of the policy must be known to the oracle table of p.Arch.
func Decide(p *spec.Policy, e spec.Event) (uint32, Info, error) {
	info := Info{Group: -1}
	if e.Arch != oracle.ArchID(p.Arch) {
		info.Foreign = true
		return Ret(p.Default), info, nil
	}
	if (p.Arch == "x86_64" || p.Arch == "x32") && e.Nr >= oracle.Const("__X32_SYSCALL_BIT") {
		info.X32 = true
		return oracle.Const("SECCOMP_RET_ERRNO") | oracle.Const("ENOSYS"), info, nil
	}
	if p.Arch == "x32" {
		// A policy for the x32 table has the audit architecture of x86_64: "on x86_64 any event whose syscall number has
		// the x32 bit set receives ERRNO(ENOSYS) whatever the policy contains". Its rules speak about numbers that carry
		// the bit, so a number without the bit is listed by none of them.
		return Ret(p.Default), info, nil
	}
	decided := false
	ret := Ret(p.Default)
	firstAction, haveFirst := uint32(0), false
	for gi, g := range p.Groups {
		mentions := false
		match := false
		cond := false
		for _, n := range g.Names {
			nr, ok := Number(p.Arch, n)
			if !ok {
				return 0, info, fmt.Errorf("model: name %q unknown to the oracle table of %s", n, p.Arch)
			}
			if nr == e.Nr {
				mentions, match = true, true
			}
		}
		for _, ce := range g.Conds {
			nr, ok := Number(p.Arch, ce.Name)
			if !ok {
				return 0, info, fmt.Errorf("model: name %q unknown to the oracle table of %s", ce.Name, p.Arch)
			}
			if nr != e.Nr {
				continue
			}
			mentions = true
			all := true
			for _, c := range ce.Conds {
				if c.Arg > 5 {
					return 0, info, fmt.Errorf("model: argument index %d", c.Arg)
				}
				ok, err := EvalCond(c.Op, e.Args[c.Arg], c.Val)
				if err != nil {
					return 0, info, err
				}
				if !ok {
					all = false
					break
				}
			}
			if all {
				match, cond = true, true
			} else if !decided {
				info.FellThrough++
			}
		}
		if mentions {
			info.ListedBy++
			if haveFirst && firstAction != g.Action {
				info.Overlap = true
			}
			if !haveFirst {
				firstAction, haveFirst = g.Action, true
			}
		}
		if match && !decided {
			decided = true
			ret = Ret(g.Action)
			info.Group = gi
			info.Conditional = cond
		}
	}
	return ret, info, nil
}
