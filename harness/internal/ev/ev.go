// Package ev is the glue between the property functions and the driver
// (/verif/check): it runs a generated-case property under rapid, keeps the last
// failing case as a replay file, counts what the generators actually produced
// and writes one evidence fragment per test process.
package ev

import (
	"bufio"
	"encoding/json"
	"fmt"
	"hash/fnv"
	"os"
	"path/filepath"
	"sort"
	"strings"
	"sync"
	"testing"
	"time"

	"pgregory.net/rapid"
)

// Result of one evaluation of a check function.
type Result struct {
	// Classes the case falls into (histogram keys).
	Classes []string
	// NonTrivial says whether the case is non-trivial by the property's rule.
	NonTrivial bool
	// Extra evaluations performed inside the case (e.g. events per policy).
	Sub int
	// SubNonTrivial: number of distinct non-trivial sub-cases (already distinct
	// inside the case); they are hashed together with the case.
	SubNonTrivial int
}

// CheckFunc decides one case. A non-nil error is a violation of the property.
// ErrInconclusive wrapped errors make the run inconclusive instead.
type CheckFunc func(raw json.RawMessage) (Result, error)

// Inconclusive marks an error that must not be reported as a violation
// (helper died, timeout, oracle self-check failed...).
type Inconclusive struct{ Msg string }

func (e *Inconclusive) Error() string { return "inconclusive: " + e.Msg }

// Inconclusivef builds an Inconclusive error.
func Inconclusivef(format string, a ...any) error {
	return &Inconclusive{Msg: fmt.Sprintf(format, a...)}
}

type kindInfo struct {
	id, kind string
	fn       CheckFunc
}

var (
	mu       sync.Mutex
	registry = map[string]kindInfo{} // key id/kind
	col      = map[string]*collector{}
)

type collector struct {
	ID            string         `json:"property_id"`
	Evaluations   int            `json:"evaluations"`
	Cases         int            `json:"cases"`
	NonTrivial    map[uint64]int `json:"-"`
	NTHashes      []uint64       `json:"nontrivial_hashes"`
	SubNonTrivial int            `json:"sub_nontrivial"`
	Classes       map[string]int `json:"classes"`
	Samples       []any          `json:"samples"`
	Excluded      int            `json:"excluded_known"`
	Known         []string       `json:"known_findings_seen"`
	Violations    []string       `json:"violations"`
	Inconclusive  []string       `json:"inconclusive"`
	Notes         []string       `json:"notes"`
	Exhaustive    map[string]int `json:"exhaustive_parts"`
	WallS         float64        `json:"wall_s"`
	frozen        bool
	start         time.Time
}

func get(id string) *collector {
	c := col[id]
	if c == nil {
		c = &collector{ID: id, NonTrivial: map[uint64]int{}, Classes: map[string]int{}, Exhaustive: map[string]int{}, start: time.Now()}
		col[id] = c
	}
	return c
}

// Register makes a check function known under id/kind for replay.
func Register(id, kind string, fn CheckFunc) {
	mu.Lock()
	defer mu.Unlock()
	registry[id+"/"+kind] = kindInfo{id, kind, fn}
}

// Hash of a canonical encoding.
func Hash(b []byte) uint64 {
	h := fnv.New64a()
	h.Write(b)
	return h.Sum64()
}

// Note records a free-text remark in the evidence.
func Note(id, format string, a ...any) {
	mu.Lock()
	defer mu.Unlock()
	c := get(id)
	if len(c.Notes) < 40 {
		c.Notes = append(c.Notes, fmt.Sprintf(format, a...))
	}
}

// Count adds n to a class counter without counting an evaluation.
func Count(id, class string, n int) {
	mu.Lock()
	defer mu.Unlock()
	c := get(id)
	if !c.frozen {
		c.Classes[class] += n
	}
}

// Exhaustive records that a finite part was enumerated completely (n items).
func Exhaustive(id, part string, n int) {
	mu.Lock()
	defer mu.Unlock()
	get(id).Exhaustive[part] = n
}

// MarkInconclusive records a reason why the run must not count as a pass.
func MarkInconclusive(id, format string, a ...any) {
	mu.Lock()
	defer mu.Unlock()
	c := get(id)
	if len(c.Inconclusive) < 20 {
		c.Inconclusive = append(c.Inconclusive, fmt.Sprintf(format, a...))
	}
}

func record(id, kind string, raw json.RawMessage, r Result, sampleEvery int) {
	mu.Lock()
	defer mu.Unlock()
	c := get(id)
	if c.frozen {
		return
	}
	c.Cases++
	c.Evaluations += 1 + r.Sub
	c.Classes["kind:"+kind]++
	seen := map[string]bool{}
	for _, cl := range r.Classes {
		if !seen[cl] {
			seen[cl] = true
			c.Classes[cl]++
		}
	}
	if r.NonTrivial {
		h := Hash(append([]byte(kind+"|"), raw...))
		if _, dup := c.NonTrivial[h]; !dup {
			c.SubNonTrivial += r.SubNonTrivial
		}
		c.NonTrivial[h]++
	}
	if len(c.Samples) < 3 || (sampleEvery > 0 && c.Cases%sampleEvery == 0 && len(c.Samples) < 8) {
		var v any
		if len(raw) < 6000 {
			_ = json.Unmarshal(raw, &v)
		} else {
			v = fmt.Sprintf("(case of %d bytes, head) %s", len(raw), string(raw[:1500]))
		}
		c.Samples = append(c.Samples, map[string]any{"kind": kind, "case": v, "nontrivial": r.NonTrivial, "classes": r.Classes})
	}
}

func freeze(id string) {
	mu.Lock()
	defer mu.Unlock()
	get(id).frozen = true
}

// replay file format
type replayFile struct {
	Property string          `json:"property"`
	Kind     string          `json:"kind"`
	Error    string          `json:"error,omitempty"`
	Case     json.RawMessage `json:"case"`
}

func replayDir() string {
	if d := os.Getenv("VERIF_REPLAY_DIR"); d != "" {
		return d
	}
	return os.TempDir()
}

func shard() string {
	if s := os.Getenv("VERIF_SHARD"); s != "" {
		return s
	}
	return "0"
}

func saveFailure(id, kind string, raw json.RawMessage, err error) string {
	path := filepath.Join(replayDir(), fmt.Sprintf("%s-%s-last-%s.json", id, kind, shard()))
	b, _ := json.MarshalIndent(replayFile{Property: id, Kind: kind, Error: err.Error(), Case: raw}, "", " ")
	_ = os.WriteFile(path, b, 0o644)
	return path
}

// Fail records a violation found outside of rapid (exhaustive enumerations).
func Fail(t testing.TB, id, kind string, c any, err error) {
	raw, _ := json.Marshal(c)
	if inc, ok := err.(*Inconclusive); ok {
		MarkInconclusive(id, "%s: %s", kind, inc.Msg)
		t.Logf("INCONCLUSIVE %s/%s: %v", id, kind, err)
		return
	}
	path := saveFailure(id, kind, raw, err)
	mu.Lock()
	get(id).Violations = append(get(id).Violations, path)
	mu.Unlock()
	t.Errorf("VIOLATION-CASE property=%s kind=%s file=%s: %v", id, kind, path, err)
}

// CheckOne runs one explicit (non-rapid) case, recording it.
func CheckOne(t testing.TB, id, kind string, c any, fn CheckFunc) bool {
	raw, _ := json.Marshal(c)
	r, err := fn(raw)
	if err != nil {
		Fail(t, id, kind, c, err)
		return false
	}
	record(id, kind, raw, r, 0)
	return true
}

// PropFunc builds the rapid property of id/kind: draw a case, skip known
// findings, run the check on the JSON form of the case, keep the failing case
// as a replay file. It is shared by Prop (rapid.Check) and by the native fuzz
// targets (rapid.MakeFuzz).
func PropFunc[C any](id, kind string, draw func(*rapid.T) C, fn CheckFunc, onFail func(path string)) func(*rapid.T) {
	Register(id, kind, fn)
	return func(rt *rapid.T) {
		c := draw(rt)
		raw, err := json.Marshal(c)
		if err != nil {
			panic(fmt.Sprintf("case not serialisable: %v", err))
		}
		if isKnown(id, kind, raw) {
			mu.Lock()
			get(id).Excluded++
			mu.Unlock()
			rt.Skip("known finding excluded")
		}
		r, err := fn(raw)
		if err != nil {
			if inc, ok := err.(*Inconclusive); ok {
				MarkInconclusive(id, "%s: %s", kind, inc.Msg)
				path := filepath.Join(replayDir(), fmt.Sprintf("%s-%s-inconclusive-%s.json", id, kind, shard()))
				b, _ := json.MarshalIndent(replayFile{Property: id, Kind: kind, Error: err.Error(), Case: raw}, "", " ")
				_ = os.WriteFile(path, b, 0o644)
				fmt.Printf("INCONCLUSIVE-CASE property=%s kind=%s file=%s\n", id, kind, path)
				rt.Skip("inconclusive case")
			}
			freeze(id)
			path := saveFailure(id, kind, raw, err)
			if onFail != nil {
				onFail(path)
			}
			rt.Fatalf("%s/%s: %v", id, kind, err)
		}
		record(id, kind, raw, r, 97)
	}
}

// Prop runs fn over cases drawn by draw under rapid. The case type must be
// JSON-serialisable; the check function receives the JSON form so that the
// replay path is literally the same code.
func Prop[C any](t *testing.T, id, kind string, draw func(*rapid.T) C, fn CheckFunc) {
	t.Helper()
	var lastFail string
	failed := false
	prop := PropFunc(id, kind, draw, fn, func(path string) { failed, lastFail = true, path })
	func() {
		// rapid.Check ends the test with FailNow on failure; keep control.
		defer func() {
			if failed {
				mu.Lock()
				get(id).Violations = append(get(id).Violations, lastFail)
				mu.Unlock()
				fmt.Printf("VIOLATION-CASE property=%s kind=%s file=%s\n", id, kind, lastFail)
			}
		}()
		rapid.Check(t, prop)
	}()
}

// Fuzz runs the same property under Go's native coverage-guided fuzzer.
func Fuzz[C any](f *testing.F, id, kind string, draw func(*rapid.T) C, fn CheckFunc) {
	prop := PropFunc(id, kind, draw, fn, func(path string) {
		fmt.Printf("VIOLATION-CASE property=%s kind=%s file=%s\n", id, kind, path)
	})
	f.Fuzz(rapid.MakeFuzz(prop))
}

// KeyFunc maps a case to the canonical key used in KNOWN_FINDINGS.txt.
type KeyFunc func(raw json.RawMessage) string

var (
	keyFuncs  = map[string]KeyFunc{}
	knownOnce sync.Once
	known     = map[string]map[string]string{} // id -> key -> text
)

// RegisterKey installs the canonical-key function of id/kind.
func RegisterKey(id, kind string, k KeyFunc) {
	mu.Lock()
	defer mu.Unlock()
	keyFuncs[id+"/"+kind] = k
}

func loadKnown() {
	path := os.Getenv("VERIF_KNOWN_FINDINGS")
	if path == "" {
		return
	}
	f, err := os.Open(path)
	if err != nil {
		return
	}
	defer f.Close()
	s := bufio.NewScanner(f)
	for s.Scan() {
		line := strings.TrimSpace(s.Text())
		if !strings.HasPrefix(line, "known:") {
			continue
		}
		var id, key string
		rest := []string{}
		for _, f := range strings.Fields(line[len("known:"):]) {
			switch {
			case strings.HasPrefix(f, "property=") && id == "":
				id = f[len("property="):]
			case strings.HasPrefix(f, "key=") && key == "":
				key = f[len("key="):]
			default:
				rest = append(rest, f)
			}
		}
		if id == "" || key == "" {
			continue
		}
		if known[id] == nil {
			known[id] = map[string]string{}
		}
		known[id][key] = strings.Join(rest, " ")
	}
}

func isKnown(id, kind string, raw json.RawMessage) bool {
	knownOnce.Do(loadKnown)
	m := known[id]
	if len(m) == 0 {
		return false
	}
	mu.Lock()
	kf := keyFuncs[id+"/"+kind]
	mu.Unlock()
	if kf == nil {
		return false
	}
	key := kf(raw)
	text, ok := m[key]
	if ok {
		mu.Lock()
		c := get(id)
		seen := false
		for _, k := range c.Known {
			if k == key {
				seen = true
			}
		}
		if !seen {
			c.Known = append(c.Known, key)
			fmt.Printf("KNOWN-FINDING: property=%s key=%s %s\n", id, key, text)
		}
		mu.Unlock()
	}
	return ok
}

// Replay runs the check recorded in a replay file. It returns the error of the
// check (nil when the property holds on the case).
func Replay(path string) (id string, err error) {
	b, err := os.ReadFile(path)
	if err != nil {
		return "", Inconclusivef("read replay: %v", err)
	}
	var rf replayFile
	if err := json.Unmarshal(b, &rf); err != nil {
		return "", Inconclusivef("parse replay: %v", err)
	}
	mu.Lock()
	ki, ok := registry[rf.Property+"/"+rf.Kind]
	mu.Unlock()
	if !ok {
		return rf.Property, Inconclusivef("no check registered for %s/%s", rf.Property, rf.Kind)
	}
	r, err := ki.fn(rf.Case)
	if err == nil {
		record(rf.Property, "replay:"+rf.Kind, rf.Case, r, 0)
	}
	return rf.Property, err
}

// Flush writes the evidence fragments of this process (one per property id)
// to $VERIF_EV_OUT (a directory).
func Flush() {
	dir := os.Getenv("VERIF_EV_OUT")
	if dir == "" {
		return
	}
	mu.Lock()
	defer mu.Unlock()
	for id, c := range col {
		c.WallS = time.Since(c.start).Seconds()
		c.NTHashes = c.NTHashes[:0]
		for h := range c.NonTrivial {
			c.NTHashes = append(c.NTHashes, h)
		}
		sort.Slice(c.NTHashes, func(i, j int) bool { return c.NTHashes[i] < c.NTHashes[j] })
		b, _ := json.Marshal(c)
		_ = os.WriteFile(filepath.Join(dir, fmt.Sprintf("%s-%s-%d.json", id, shard(), os.Getpid())), b, 0o644)
	}
}

// Main is the TestMain body shared by the test packages.
func Main(m *testing.M) {
	code := m.Run()
	Flush()
	os.Exit(code)
}

// Tier returns "quick" or "thorough".
func Tier() string {
	if os.Getenv("VERIF_TIER") == "thorough" {
		return "thorough"
	}
	return "quick"
}

// Scale returns q in the quick tier and th in the thorough tier.
func Scale(q, th int) int {
	if Tier() == "thorough" {
		return th
	}
	return q
}
