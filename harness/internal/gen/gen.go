// Package gen holds the rapid generators for policies and the deterministic
// expansion of event sets (partition representatives) for a policy.
package gen

import (
	"sort"

	"pgregory.net/rapid"

	"verif/harness/internal/oracle"
	"verif/harness/internal/spec"
)

// Mix is a splitmix64 step: bulk structure is expanded from rapid-drawn seeds
// with it, so every case stays a pure function of rapid's draws.
func Mix(a, b uint64) uint64 {
	z := a + 0x9e3779b97f4a7c15*(b+1)
	z = (z ^ (z >> 30)) * 0xbf58476d1ce4e5b9
	z = (z ^ (z >> 27)) * 0x94d049bb133111eb
	return z ^ (z >> 31)
}

// Rng is a tiny deterministic stream on top of Mix.
type Rng struct{ s, n uint64 }

// NewRng seeds a stream.
func NewRng(seed uint64) *Rng { return &Rng{s: seed} }

// U64 returns the next value.
func (r *Rng) U64() uint64 { r.n++; return Mix(r.s, r.n) }

// Intn returns a value in [0,n).
func (r *Rng) Intn(n int) int {
	if n <= 1 {
		return 0
	}
	return int(r.U64() % uint64(n))
}

var universe = map[string][]string{}

// Universe returns the sorted names usable for an architecture: present in
// the library's table and in the oracle table (numbers need not agree - a
// disagreement is exactly what the checks must notice).
func Universe(arch string) []string {
	if u, ok := universe[arch]; ok {
		return u
	}
	info := spec.ArchInfo(arch)
	var out []string
	for n := range oracle.Table(arch) {
		if _, ok := info.SyscallNames[n]; ok {
			out = append(out, n)
		}
	}
	sort.Strings(out)
	universe[arch] = out
	return out
}

// Subset expands (seed,count) into count distinct names of the universe.
func Subset(u []string, seed uint64, count int) []string {
	if count > len(u) {
		count = len(u)
	}
	idx := make([]int, len(u))
	for i := range idx {
		idx[i] = i
	}
	r := NewRng(seed)
	out := make([]string, 0, count)
	for i := 0; i < count; i++ {
		j := i + r.Intn(len(idx)-i)
		idx[i], idx[j] = idx[j], idx[i]
		out = append(out, u[idx[i]])
	}
	return out
}

// Boundary operands for 64-bit comparisons.
var Boundary = []uint64{
	0, 1, 2, 0x7fffffff, 0x80000000, 0xfffffffe, 0xffffffff, 0x100000000, 0x100000001, 0x1ffffffff,
	0x7fffffffffffffff, 0x8000000000000000, 0x8000000000000001, 0xfffffffffffffffe, 0xffffffffffffffff,
	0xffffffff00000000, 0x00000001ffffffff, 0x7fffffff00000000, 0x8000000080000000, 0x0000000100000000,
}

// Profile biases the size and shape of generated policies.
type Profile int

// Profiles.
const (
	Small      Profile = iota // few names, few conditions: shrinks well, fast
	NamesOnly                 // no conditional entries; list sizes 0..whole table
	Long                      // > 255 instructions by long lists and/or long OR-lists
	Edge255                   // total size searched around the arch-jump switch at 255/256
	Degenerate                // empty groups, single names, empty group between full ones
	CondHeavy                 // several conditional entries followed by more entries / groups
	Probes                    // restricted to a given name universe (kernel runs)
)

// Opts tunes Policy.
type Opts struct {
	Profile   Profile
	MaxInsns  int      // 0 = no bound; otherwise the estimate is kept below it by dropping groups
	Names     []string // universe override (Probes)
	Actions   []uint32 // action override
	MaxGroups int
	// NamedActionsOnly: group actions are the seven documented constants only (text / configuration forms cannot
	// spell anything else). Otherwise about 1/8 of the groups carry an action with data bits (ERRNO|n, TRACE|n, TRAP|n)
	// or user_notif: values the Go API accepts for groups and the compiler returns as they are.
	NamedActionsOnly bool
}

// Policy draws a policy for arch by construction (no rejection).
func Policy(t *rapid.T, arch string, o Opts) spec.Policy {
	u := o.Names
	if u == nil {
		u = Universe(arch)
	}
	acts := o.Actions
	if acts == nil {
		acts = oracle.ActionList()
	}
	act := func(label string) uint32 { return acts[rapid.IntRange(0, len(acts)-1).Draw(t, label)] }
	p := spec.Policy{Arch: arch, Default: act("default")}
	maxG := o.MaxGroups
	if maxG == 0 {
		maxG = 8
	}
	ng := 1
	switch k := rapid.IntRange(0, 9).Draw(t, "ngClass"); {
	case k < 3:
		ng = 1
	case k < 7:
		ng = rapid.IntRange(2, 3).Draw(t, "ng")
	default:
		ng = rapid.IntRange(2, maxG).Draw(t, "ng")
	}
	if ng > maxG {
		ng = maxG
	}
	var used []string // names used so far anywhere (to force overlap between groups)
	var operands []uint64
	pickName := func(label string, avoid map[string]bool) (string, bool) {
		for try := 0; try < 4; try++ {
			var n string
			if len(used) > 0 && rapid.IntRange(0, 2).Draw(t, label+"Overlap") == 0 {
				n = used[rapid.IntRange(0, len(used)-1).Draw(t, label+"Used")]
			} else {
				n = u[rapid.IntRange(0, len(u)-1).Draw(t, label)]
			}
			if !avoid[n] {
				return n, true
			}
		}
		return "", false
	}
	operand := func() uint64 {
		switch rapid.IntRange(0, 5).Draw(t, "valClass") {
		case 0, 1:
			return Boundary[rapid.IntRange(0, len(Boundary)-1).Draw(t, "valB")]
		case 2:
			if len(operands) > 0 {
				v := operands[rapid.IntRange(0, len(operands)-1).Draw(t, "valPrev")]
				return v + uint64(rapid.IntRange(-1, 1).Draw(t, "valDelta"))
			}
			return 0
		case 3:
			// a syscall number of this table, in the low or the high word (bait for nr/argument confusion)
			n := u[rapid.IntRange(0, len(u)-1).Draw(t, "valNr")]
			v := uint64(oracle.Table(arch)[n])
			if rapid.Bool().Draw(t, "valNrHi") {
				v = v<<32 | v
			}
			return v
		default:
			return rapid.Uint64().Draw(t, "valU")
		}
	}
	for g := 0; g < ng; g++ {
		grp := spec.Group{Action: act("action")}
		if o.Actions == nil && !o.NamedActionsOnly && rapid.IntRange(0, 7).Draw(t, "actionData") == 0 {
			base := []uint32{oracle.Const("SECCOMP_RET_ERRNO"), oracle.Const("SECCOMP_RET_ERRNO"), oracle.Const("SECCOMP_RET_TRACE"), oracle.Const("SECCOMP_RET_TRAP"), 0x7fc00000}[rapid.IntRange(0, 4).Draw(t, "actionDataBase")]
			if base == 0x7fc00000 {
				grp.Action = base
			} else {
				data := []uint32{1, 2, 2, 38, 0xfff, 0x1000, 0xfffe, 0xffff}[rapid.IntRange(0, 7).Draw(t, "actionDataBits")]
				grp.Action = base | data
			}
		}
		inGroup := map[string]bool{}
		// unconditional names
		nameClass := rapid.IntRange(0, 9).Draw(t, "nameClass")
		var count int
		bulk := false
		switch o.Profile {
		case Small, CondHeavy, Probes:
			count = []int{0, 0, 1, 1, 2, 2, 3, 3, 4, 6}[nameClass]
		case Degenerate:
			count = []int{0, 0, 0, 0, 0, 1, 1, 1, 2, 40}[nameClass]
			bulk = count > 6
		case NamesOnly:
			switch {
			case nameClass < 3:
				count = rapid.IntRange(0, 6).Draw(t, "count")
			case nameClass < 5:
				count, bulk = rapid.IntRange(100, 140).Draw(t, "count"), true
			case nameClass < 7:
				count, bulk = rapid.IntRange(240, 270).Draw(t, "count"), true
			case nameClass < 9:
				count, bulk = rapid.IntRange(7, len(u)).Draw(t, "count"), true
			default:
				count, bulk = len(u), true
			}
		case Long:
			switch {
			case nameClass < 4:
				count = rapid.IntRange(0, 4).Draw(t, "count")
			case nameClass < 8:
				count, bulk = rapid.IntRange(120, 300).Draw(t, "count"), true
			default:
				count, bulk = len(u), true
			}
		case Edge255:
			switch {
			case nameClass < 5:
				count, bulk = rapid.IntRange(236, 256).Draw(t, "count"), true
			case nameClass < 8:
				count, bulk = rapid.IntRange(100, 130).Draw(t, "count"), true
			default:
				count = rapid.IntRange(0, 5).Draw(t, "count")
			}
		}
		if o.Profile == Probes && count > len(u) {
			count = len(u)
		}
		if bulk {
			grp.Names = Subset(u, rapid.Uint64().Draw(t, "bulkSeed"), count)
			for _, n := range grp.Names {
				inGroup[n] = true
			}
		} else {
			for i := 0; i < count; i++ {
				if n, ok := pickName("name", inGroup); ok {
					inGroup[n] = true
					grp.Names = append(grp.Names, n)
				}
			}
		}
		// conditional entries
		var nsys int
		switch o.Profile {
		case NamesOnly:
			nsys = 0
		case Small, Probes:
			nsys = []int{0, 0, 0, 1, 1, 1, 2, 2, 3, 4}[rapid.IntRange(0, 9).Draw(t, "nsys")]
		case CondHeavy:
			nsys = rapid.IntRange(1, 5).Draw(t, "nsys")
		case Long, Edge255:
			nsys = []int{0, 0, 0, 0, 1, 1, 1, 2, 2, 3}[rapid.IntRange(0, 9).Draw(t, "nsys")]
		case Degenerate:
			nsys = []int{0, 0, 0, 0, 0, 0, 1, 1, 1, 2}[rapid.IntRange(0, 9).Draw(t, "nsys")]
		}
		var entries []spec.CondEntry
		for s := 0; s < nsys; s++ {
			name, ok := pickName("cname", inGroup)
			if !ok {
				continue
			}
			inGroup[name] = true
			nl := 1
			lc := rapid.IntRange(0, 19).Draw(t, "listsClass")
			switch {
			case lc < 8:
				nl = 1
			case lc < 16:
				nl = rapid.IntRange(2, 4).Draw(t, "lists")
			default:
				max := 12
				if o.Profile == Long {
					max = 40
				}
				nl = rapid.IntRange(5, max).Draw(t, "lists")
			}
			for l := 0; l < nl; l++ {
				nc := 1
				cc := rapid.IntRange(0, 19).Draw(t, "condsClass")
				switch {
				case cc < 8:
					nc = 1
				case cc < 17:
					nc = rapid.IntRange(2, 5).Draw(t, "conds")
				default:
					max := 12
					if o.Profile == Long {
						max = 80
						if rapid.IntRange(0, 2).Draw(t, "veryLongList") == 0 {
							// one list whose checks alone exceed 510 instructions: its jumps to "no match" need bridges that
							// lead to bridges
							nc = rapid.IntRange(130, 230).Draw(t, "condsVeryLong")
							max = 0
						}
					}
					if max > 0 {
						nc = rapid.IntRange(6, max).Draw(t, "conds")
					}
				}
				ce := spec.CondEntry{Name: name}
				if l > 0 && rapid.IntRange(0, 3).Draw(t, "nearDuplicate") == 0 {
					// the previous list of this syscall again, with exactly one field of one condition changed: lists that
					// look alike are different rules
					prev := entries[len(entries)-1]
					ce.Conds = append([]spec.Cond(nil), prev.Conds...)
					k := rapid.IntRange(0, len(ce.Conds)-1).Draw(t, "dupCond")
					switch rapid.IntRange(0, 2).Draw(t, "dupField") {
					case 0:
						ce.Conds[k].Arg = (ce.Conds[k].Arg + uint32(rapid.IntRange(1, 5).Draw(t, "dupArg"))) % 6
					case 1:
						ce.Conds[k].Op = spec.Ops[(indexOfOp(ce.Conds[k].Op)+rapid.IntRange(1, 7).Draw(t, "dupOp"))%8]
					default:
						ce.Conds[k].Val = ce.Conds[k].Val<<32 | ce.Conds[k].Val>>32
						if ce.Conds[k].Val == prev.Conds[k].Val {
							ce.Conds[k].Val ^= 1 << 32
						}
						operands = append(operands, ce.Conds[k].Val)
					}
					entries = append(entries, ce)
					continue
				}
				for c := 0; c < nc; c++ {
					v := operand()
					operands = append(operands, v)
					ce.Conds = append(ce.Conds, spec.Cond{
						Arg: uint32(rapid.IntRange(0, 5).Draw(t, "arg")),
						Op:  spec.Ops[rapid.IntRange(0, 7).Draw(t, "op")],
						Val: v,
					})
				}
				entries = append(entries, ce)
			}
		}
		// shuffle entry order so that same-name entries interleave
		if len(entries) > 1 {
			r := NewRng(rapid.Uint64().Draw(t, "shuffle"))
			for i := len(entries) - 1; i > 0; i-- {
				j := r.Intn(i + 1)
				entries[i], entries[j] = entries[j], entries[i]
			}
		}
		grp.Conds = entries
		for n := range inGroup {
			_ = n
		}
		names := make([]string, 0, len(inGroup))
		for n := range inGroup {
			names = append(names, n)
		}
		sort.Strings(names)
		if len(names) > 12 {
			names = names[:12]
		}
		used = append(used, names...)
		p.Groups = append(p.Groups, grp)
		if o.MaxInsns > 0 && p.EstimateInsns() > o.MaxInsns {
			p.Groups = p.Groups[:len(p.Groups)-1]
			if len(p.Groups) == 0 {
				p.Groups = append(p.Groups, spec.Group{Action: grp.Action, Names: grp.Names[:min(len(grp.Names), 3)]})
			}
			break
		}
	}
	return p
}

func min(a, b int) int {
	if a < b {
		return a
	}
	return b
}

func indexOfOp(op string) int {
	for i, o := range spec.Ops {
		if o == op {
			return i
		}
	}
	return 0
}
