package gen

import (
	"sort"

	"verif/harness/internal/model"
	"verif/harness/internal/oracle"
	"verif/harness/internal/spec"
)

// EventOpts selects which kinds of events Events produces.
type EventOpts struct {
	Own     bool     // events with the policy's own architecture word (and no x32 bit)
	Foreign bool     // events with other architecture words
	X32     bool     // x86_64 only: numbers >= 0x40000000 and the negative control 0x3fffffff
	PerNr   int      // argument vectors per syscall number (own events)
	MaxNrs  int      // cap on the number of distinct syscall numbers (0 = no cap)
	Consts  []uint32 // constants the compiled program compares with (partition representatives)
}

// satisfy returns candidate values around an operand.
func candidates(v uint64) []uint64 {
	return []uint64{v, v + 1, v - 1, ^v, 0, ^uint64(0), v ^ (1 << 32), v<<32 | v>>32, v &^ 0xffffffff, v & 0xffffffff,
		v | 1<<63, v >> 1, v << 1, v & -v, v + (1 << 32), v - (1 << 32)}
}

// solveList tries to find argument values making every condition of the list
// true (want=true) or making exactly the condition at index falseAt false and
// the earlier ones true.
func solveList(conds []spec.Cond, falseAt int, r *Rng, base [6]uint64) ([6]uint64, bool) {
	args := base
	// group by argument
	byArg := map[uint32][]int{}
	for i, c := range conds {
		if c.Arg > 5 {
			return args, false
		}
		if falseAt >= 0 && i > falseAt {
			continue
		}
		byArg[c.Arg] = append(byArg[c.Arg], i)
	}
	for a := uint32(0); a < 6; a++ {
		idxs := byArg[a]
		if len(idxs) == 0 {
			continue
		}
		var cands []uint64
		for _, i := range idxs {
			cands = append(cands, candidates(conds[i].Val)...)
		}
		cands = append(cands, Boundary...)
		found := false
		start := r.Intn(len(cands))
		for k := range cands {
			v := cands[(start+k)%len(cands)]
			ok := true
			for _, i := range idxs {
				want := i != falseAt
				got, err := model.EvalCond(conds[i].Op, v, conds[i].Val)
				if err != nil || got != want {
					ok = false
					break
				}
			}
			if ok {
				args[a] = v
				found = true
				break
			}
		}
		if !found {
			return args, false
		}
	}
	return args, true
}

// Events expands a deterministic, policy-directed event set.
func Events(p *spec.Policy, seed uint64, o EventOpts) []spec.Event {
	r := NewRng(seed)
	tbl := oracle.Table(p.Arch)
	own := oracle.ArchID(p.Arch)
	x32bit := oracle.Const("__X32_SYSCALL_BIT")

	// numbers mentioned by the policy, with their conditional lists
	type lists [][]spec.Cond
	listed := map[uint32]lists{}
	var order []uint32
	var operandPool []uint64
	for _, g := range p.Groups {
		for _, n := range g.Names {
			nr := uint32(tbl[n])
			if _, ok := listed[nr]; !ok {
				listed[nr] = nil
				order = append(order, nr)
			}
		}
		for _, ce := range g.Conds {
			nr := uint32(tbl[ce.Name])
			if _, ok := listed[nr]; !ok {
				order = append(order, nr)
			}
			listed[nr] = append(listed[nr], ce.Conds)
			for _, c := range ce.Conds {
				operandPool = append(operandPool, c.Val)
			}
		}
	}
	// bait: listed syscall numbers as argument words
	var bait []uint64
	for _, nr := range order {
		bait = append(bait, uint64(nr), uint64(nr)<<32, uint64(nr)<<32|uint64(nr))
		if len(bait) > 60 {
			break
		}
	}
	randArg := func() uint64 {
		switch r.Intn(6) {
		case 0:
			if len(operandPool) > 0 {
				c := candidates(operandPool[r.Intn(len(operandPool))])
				return c[r.Intn(len(c))]
			}
		case 1, 2:
			if len(bait) > 0 {
				return bait[r.Intn(len(bait))]
			}
		case 3:
			return Boundary[r.Intn(len(Boundary))]
		case 4:
			return r.U64()
		}
		return uint64(r.Intn(4))
	}
	randArgs := func() (a [6]uint64) {
		for i := range a {
			a[i] = randArg()
		}
		return
	}

	// candidate syscall numbers
	nrSet := map[uint32]bool{}
	var nrs []uint32
	add := func(n uint32) {
		if !nrSet[n] {
			nrSet[n] = true
			nrs = append(nrs, n)
		}
	}
	// conditional numbers first (they must survive the cap), then the others
	for _, nr := range order {
		if listed[nr] != nil {
			add(nr)
		}
	}
	capListed := len(order)
	if o.MaxNrs > 0 && capListed > o.MaxNrs {
		capListed = o.MaxNrs
	}
	if capListed == len(order) {
		for _, nr := range order {
			add(nr)
		}
	} else {
		// always the first and last listed of every group, then a sample
		for _, g := range p.Groups {
			if len(g.Names) > 0 {
				add(uint32(tbl[g.Names[0]]))
				add(uint32(tbl[g.Names[len(g.Names)-1]]))
			}
		}
		for i := 0; i < capListed; i++ {
			add(order[r.Intn(len(order))])
		}
	}
	base := append([]uint32(nil), nrs...)
	for i, nr := range base {
		if i < 40 || r.Intn(8) == 0 {
			add(nr + 1)
			add(nr - 1)
		}
	}
	cs := append([]uint32(nil), o.Consts...)
	sort.Slice(cs, func(i, j int) bool { return cs[i] < cs[j] })
	if len(cs) > 0 {
		add(cs[len(cs)-1] + 1) // above everything the program compares with
		for i := 0; i < 12 && i < len(cs); i++ {
			c := cs[r.Intn(len(cs))]
			add(c)
			add(c + 1)
			add(c - 1)
		}
	}
	for _, n := range []uint32{0, 1, x32bit - 1} {
		add(n)
	}
	if p.Arch != "x86_64" {
		// on other architectures these are ordinary (unlisted) numbers
		for _, n := range []uint32{x32bit, 0x7fffffff, 0x80000000, 0xffffffff} {
			add(n)
		}
	}
	for i := 0; i < 4; i++ {
		if p.Arch == "x86_64" {
			add(uint32(r.U64()) & (x32bit - 1))
		} else {
			add(uint32(r.U64()))
		}
	}
	// the largest table number + 1: unlisted and above every listed one
	max := uint32(0)
	for _, n := range tbl {
		if uint32(n) > max && uint32(n) < 0x10000 {
			max = uint32(n)
		}
	}
	add(max + 1)

	var out []spec.Event
	per := o.PerNr
	if per <= 0 {
		per = 2
	}
	if o.Own {
		for _, nr := range nrs {
			if p.Arch == "x86_64" && nr >= x32bit {
				continue
			}
			ls := listed[nr]
			if len(ls) > 0 {
				// targeted vectors per list
				for li, l := range ls {
					if li >= 6 && r.Intn(4) != 0 {
						continue
					}
					if a, ok := solveList(l, -1, r, randArgs()); ok {
						out = append(out, spec.Event{Arch: own, Nr: nr, Args: a})
					}
					if len(l) > 0 {
						if a, ok := solveList(l, len(l)-1, r, randArgs()); ok {
							out = append(out, spec.Event{Arch: own, Nr: nr, Args: a})
						}
						if a, ok := solveList(l, 0, r, randArgs()); ok {
							out = append(out, spec.Event{Arch: own, Nr: nr, Args: a})
						}
						if len(l) > 2 {
							if a, ok := solveList(l, r.Intn(len(l)), r, randArgs()); ok {
								out = append(out, spec.Event{Arch: own, Nr: nr, Args: a})
							}
						}
					}
				}
			}
			for k := 0; k < per; k++ {
				out = append(out, spec.Event{Arch: own, Nr: nr, Args: randArgs(), IP: r.U64()})
			}
		}
	}
	if o.X32 && p.Arch == "x86_64" {
		xs := []uint32{x32bit, x32bit + 1, 0x7fffffff, 0x80000000, 0xffffffff, 0xfffffffe, x32bit | 59, x32bit | 520}
		for i, nr := range order {
			if i < 12 || r.Intn(10) == 0 {
				xs = append(xs, x32bit|nr, 0x80000000|nr, 0xc0000000|nr)
			}
		}
		for _, n := range oracle.Names("x32") {
			if r.Intn(40) == 0 {
				xs = append(xs, x32bit|uint32(oracle.Table("x32")[n]))
			}
		}
		sort.Slice(xs, func(i, j int) bool { return xs[i] < xs[j] })
		for _, nr := range xs {
			// arguments chosen to satisfy rules of the un-flagged number
			args := randArgs()
			if ls := listed[nr&^0xc0000000]; len(ls) > 0 {
				if a, ok := solveList(ls[r.Intn(len(ls))], -1, r, args); ok {
					args = a
				}
			}
			out = append(out, spec.Event{Arch: own, Nr: nr, Args: args})
		}
		// negative control
		out = append(out, spec.Event{Arch: own, Nr: x32bit - 1, Args: randArgs()})
	}
	if o.Foreign {
		var archs []uint32
		for _, v := range oracle.AuditArches() {
			if v != own {
				archs = append(archs, v)
			}
		}
		sort.Slice(archs, func(i, j int) bool { return archs[i] < archs[j] })
		special := []uint32{0, 0xffffffff, own ^ 1, own ^ 0x80000000, own ^ 0x40000000, own + 1, own - 1, own & 0xffff, own >> 16}
		pickArch := func() uint32 {
			switch r.Intn(4) {
			case 0:
				return special[r.Intn(len(special))]
			case 1:
				a := uint32(r.U64())
				if a == own {
					a++
				}
				return a
			}
			return archs[r.Intn(len(archs))]
		}
		fn := nrs
		for i, nr := range fn {
			if i >= 60 && r.Intn(6) != 0 {
				continue
			}
			args := randArgs()
			if ls := listed[nr]; len(ls) > 0 {
				if a, ok := solveList(ls[r.Intn(len(ls))], -1, r, args); ok {
					args = a
				}
			}
			out = append(out, spec.Event{Arch: pickArch(), Nr: nr, Args: args})
		}
		// the four i386/x86_64/arm/aarch64 ids explicitly, with a listed number
		if len(order) > 0 {
			for _, a := range oracle.Arches {
				if id := oracle.ArchID(a); id != own {
					out = append(out, spec.Event{Arch: id, Nr: order[r.Intn(len(order))], Args: randArgs()})
				}
			}
		}
	}
	return out
}
