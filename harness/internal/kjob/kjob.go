// Package kjob defines the job and event formats exchanged between the test
// process and the kchild helper.
package kjob

import "verif/harness/internal/spec"

// FilterSpec describes one LoadFilter call.
type FilterSpec struct {
	Policy   spec.Policy `json:"policy"`
	NNP      bool        `json:"nnp"`
	Flag     uint32      `json:"flag"`
	HostArch bool        `json:"host_arch"` // leave the architecture to the library (nil arch => GOARCH), as users do
	Kind     string      `json:"kind,omitempty"`
	// PreNNP: the goroutine that is about to call LoadFilter calls SetNoNewPrivs() first (on whatever thread it happens to
	// run): the thread it starts on then has the bit, other threads do not
	PreNNP bool `json:"pre_nnp,omitempty"`
	// Reassembled: the Policy value handed to LoadFilter compiled and printed another policy before (same default action,
	// same number of groups, every group listing only "sync") and was then edited in place to this one
	Reassembled bool `json:"reassembled,omitempty"`
}

// Probe is one raw system call.
type Probe struct {
	Nr   uint32    `json:"nr"`
	Args [6]uint64 `json:"args"`
}

// ProbeResult is what the raw system call returned.
type ProbeResult struct {
	Ret   int64 `json:"ret"`
	Errno int   `json:"errno"`
}

// Sched is the perturbation performed inside the schedule point between the
// prctl and the seccomp call.
type Sched struct {
	Gosched  int `json:"gosched,omitempty"`
	SleepUs  int `json:"sleep_us,omitempty"`
	Syscalls int `json:"syscalls,omitempty"`
}

// StateThread is one pre-existing OS thread of a C10 plan.
type StateThread struct {
	State string `json:"state"` // spin, nanosleep, read, futex, spawner
}

// Step is one action of a job.
type Step struct {
	Op     string        `json:"op"`               // mkthreads, states, load, supported, nnp, probe, status, allstatus, release, spawn, spinners, control, sleep
	Thread int           `json:"thread"`           // command thread index; -1 = a fresh unlocked goroutine
	N      int           `json:"n,omitempty"`      // mkthreads / spawn / spinners: how many; sleep: microseconds
	Filter *FilterSpec   `json:"filter,omitempty"` // load
	Probes []Probe       `json:"probes,omitempty"` // probe / release / spawn
	Sched  *Sched        `json:"sched,omitempty"`  // load (perturbation inside the hook) / control
	States []StateThread `json:"states,omitempty"` // states
	// nested-load: Filter is loaded on Thread; when that load reaches the schedule point between its preparation and the
	// installation, Inner (a load on another command thread) is executed completely, then the outer load continues.
	Inner *Step `json:"inner,omitempty"`
}

// Job is what one child executes.
type Job struct {
	GOMAXPROCS int `json:"gomaxprocs,omitempty"`
	// Uname26: the child gives itself the UNAME26 personality first: uname(2) then reports a 2.6.x release (what a
	// program sees under `setarch --uname-2.6`). What reaches the kernel must not depend on what uname says.
	Uname26 bool   `json:"uname26,omitempty"`
	Steps   []Step `json:"steps"`
}

// Capture is what the syscall wrapper was about to pass to the kernel.
type Capture struct {
	Op    uint64 `json:"op"`
	Flags uint32 `json:"flags"`
	Len   int    `json:"len"`
	Prog  string `json:"prog,omitempty"` // hex, 8 bytes per instruction
	Tid   int    `json:"tid"`
	NNP   int    `json:"nnp"` // no_new_privs of the calling thread at that moment
}

// SchedInfo is what the schedule-point hook saw.
type SchedInfo struct {
	TidBefore int `json:"tid_before"`
	TidAfter  int `json:"tid_after"`
	NNPBefore int `json:"nnp_before"`
	NNPAfter  int `json:"nnp_after"`
}

// ThreadStatus are the seccomp related fields of /proc/self/task/<tid>/status.
type ThreadStatus struct {
	Idx     int    `json:"idx"` // command thread index, -1 for others
	Role    string `json:"role,omitempty"`
	Tid     int    `json:"tid"`
	Seccomp int    `json:"seccomp"`
	Filters int    `json:"filters"`
	NNP     int    `json:"nnp"`
	Gone    bool   `json:"gone,omitempty"`
}

// Event is one line of the child's output.
type Event struct {
	Step      int            `json:"step"`
	Ev        string         `json:"ev"`
	K         int            `json:"k,omitempty"`
	Tid       int            `json:"tid,omitempty"`
	TidAfter  int            `json:"tid_after,omitempty"`
	Arch      string         `json:"arch,omitempty"`
	Uid       int            `json:"uid,omitempty"`
	Nil       bool           `json:"nil,omitempty"`
	Err       string         `json:"err,omitempty"`
	Panic     string         `json:"panic,omitempty"`
	Supported bool           `json:"supported,omitempty"`
	Captures  []Capture      `json:"captures,omitempty"`
	Sched     *SchedInfo     `json:"sched,omitempty"`
	Results   []ProbeResult  `json:"results,omitempty"`
	Status    []ThreadStatus `json:"status,omitempty"`
	State     string         `json:"state,omitempty"`
	Idx       int            `json:"idx,omitempty"`
	Migrated  bool           `json:"migrated,omitempty"`
}
