// Package spec holds the harness-side, JSON-serialisable description of a
// policy and of a syscall event, and the conversion to the library's types.
package spec

import (
	"encoding/binary"

	seccomp "github.com/elastic/go-seccomp-bpf"
	"github.com/elastic/go-seccomp-bpf/arch"
)

// Cond is one argument condition.
type Cond struct {
	Arg uint32 `json:"arg"`
	Op  string `json:"op"`
	Val uint64 `json:"val"`
}

// CondEntry is one names_with_args entry (one AND-list).
type CondEntry struct {
	Name  string `json:"name"`
	Conds []Cond `json:"conds"`
}

// Group is one syscall group.
type Group struct {
	Action uint32      `json:"action"`
	Names  []string    `json:"names,omitempty"`
	Conds  []CondEntry `json:"conds,omitempty"`
}

// Policy is a policy for one architecture (Linux name as used by the package).
type Policy struct {
	Arch    string  `json:"arch"`
	Default uint32  `json:"default"`
	Groups  []Group `json:"groups"`
	// NilGroups: Syscalls is a nil slice instead of an empty one when Groups is empty.
	NilGroups bool `json:"nil_groups,omitempty"`
}

// Ops are the eight documented operations, canonical spelling.
var Ops = []string{"Equal", "NotEqual", "GreaterThan", "LessThan", "GreaterOrEqual", "LessOrEqual", "BitsSet", "BitsNotSet"}

// Event is one syscall event as the kernel presents it to a filter.
type Event struct {
	Arch uint32    `json:"arch"`
	Nr   uint32    `json:"nr"`
	IP   uint64    `json:"ip,omitempty"`
	Args [6]uint64 `json:"args"`
}

// Words encodes the event as the 16 native-order 32-bit words of seccomp_data
// for a machine of the given byte order (which half of a 64-bit field comes
// first is all that differs at word granularity).
func (e Event) Words(bo binary.ByteOrder) [16]uint32 {
	var w [16]uint32
	w[0] = e.Nr
	w[1] = e.Arch
	put := func(i int, v uint64) {
		if bo == binary.ByteOrder(binary.LittleEndian) {
			w[i] = uint32(v)
			w[i+1] = uint32(v >> 32)
		} else {
			w[i] = uint32(v >> 32)
			w[i+1] = uint32(v)
		}
	}
	put(2, e.IP)
	for i, a := range e.Args {
		put(4+2*i, a)
	}
	return w
}

// ArchInfo returns the library's Info for a Linux architecture name, without
// going through GetInfo (so that tables can be compiled on any host).
func ArchInfo(name string) *arch.Info {
	switch name {
	case "x86_64":
		return arch.X86_64
	case "i386":
		return arch.I386
	case "arm":
		return arch.ARM
	case "aarch64":
		return arch.AARCH64
	case "x32":
		return arch.X32
	}
	return nil
}

// ToSeccomp builds the library value. Fresh slices are allocated so that the
// result shares nothing with the spec.
func (p Policy) ToSeccomp() *seccomp.Policy {
	out := &seccomp.Policy{DefaultAction: seccomp.Action(p.Default)}
	if !(len(p.Groups) == 0 && p.NilGroups) {
		out.Syscalls = make([]seccomp.SyscallGroup, 0, len(p.Groups))
	}
	for _, g := range p.Groups {
		sg := seccomp.SyscallGroup{Action: seccomp.Action(g.Action)}
		if g.Names != nil {
			sg.Names = append(make([]string, 0, len(g.Names)), g.Names...)
		}
		for _, ce := range g.Conds {
			nc := seccomp.NameWithConditions{Name: ce.Name}
			if ce.Conds != nil {
				nc.Conditions = make(seccomp.ArgumentConditions, 0, len(ce.Conds))
			}
			for _, c := range ce.Conds {
				nc.Conditions = append(nc.Conditions, seccomp.Condition{Argument: c.Arg, Operation: seccomp.Operation(c.Op), Value: c.Val})
			}
			sg.NamesWithCondtions = append(sg.NamesWithCondtions, nc)
		}
		out.Syscalls = append(out.Syscalls, sg)
	}
	if p.Arch != "" {
		seccomp.VerifSetArch(out, ArchInfo(p.Arch))
	}
	return out
}

// EstimateInsns is a conservative upper estimate of the compiled size, used
// by generators to stay below the kernel's 4096 limit where a property needs it.
func (p Policy) EstimateInsns() int {
	n := 8
	for _, g := range p.Groups {
		n += 3 + len(g.Names) + len(g.Names)/200 + 2
		for _, ce := range g.Conds {
			// 1 nr test (+reload) per entry, up to 5 instructions per condition, bridges.
			n += 3 + 5*len(ce.Conds)
		}
	}
	return n + n/40
}
