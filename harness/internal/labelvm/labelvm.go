// Package labelvm is the abstract machine for label-level programs: the
// meaning that the public label-and-jump builder has to preserve.
package labelvm

import (
	"fmt"

	"golang.org/x/net/bpf"
)

// Instruction kinds.
const (
	Load = 0
	Jump = 1
	Ret  = 2
)

// Ins is one label-level instruction. Its identity is its index in the
// program: a load of index i reads input word i, a jump compares with Val
// (unique per jump), a return returns Val (unique per return).
type Ins struct {
	Kind int    `json:"k"`
	Hi   bool   `json:"hi,omitempty"` // Load: built with LdHi instead of LdLo
	Cond int    `json:"c,omitempty"`  // Jump: bpf.JumpTest value
	Val  uint32 `json:"v"`            // Jump: constant; Ret: return value
	T    int    `json:"t,omitempty"`  // Jump: index of the true target
	F    int    `json:"f,omitempty"`  // Jump: index of the false target
	Next bool   `json:"nx,omitempty"` // Jump: built with JmpIfTrue (F is the next instruction)
}

// Program is a label-level program. Well-formed: every jump target is a larger
// index inside the program and the last instruction is a return.
type Program []Ins

// Step of the observable trace.
type Step struct {
	Kind int
	ID   uint32 // Load: index; Jump: Val; Ret: Val
}

// Test evaluates a jump condition.
func Test(cond int, a, v uint32) bool {
	switch bpf.JumpTest(cond) {
	case bpf.JumpEqual:
		return a == v
	case bpf.JumpNotEqual:
		return a != v
	case bpf.JumpGreaterThan:
		return a > v
	case bpf.JumpLessThan:
		return a < v
	case bpf.JumpGreaterOrEqual:
		return a >= v
	case bpf.JumpLessOrEqual:
		return a <= v
	case bpf.JumpBitsSet:
		return a&v != 0
	case bpf.JumpBitsNotSet:
		return a&v == 0
	}
	panic("labelvm: bad condition")
}

// Validate checks well-formedness.
func (p Program) Validate() error {
	if len(p) == 0 || p[len(p)-1].Kind != Ret {
		return fmt.Errorf("program must end in a return")
	}
	for i, in := range p {
		if in.Kind == Jump {
			if in.T <= i || in.F <= i || in.T >= len(p) || in.F >= len(p) {
				return fmt.Errorf("instruction %d: targets %d/%d not forward inside the program", i, in.T, in.F)
			}
			if in.Next && in.F != i+1 {
				return fmt.Errorf("instruction %d: JmpIfTrue with false target %d", i, in.F)
			}
		}
	}
	return nil
}

// Run executes the program; input maps a load's index to the loaded word.
func (p Program) Run(input func(idx int) uint32) (uint32, []Step) {
	var a uint32
	var tr []Step
	pc := 0
	for {
		in := p[pc]
		switch in.Kind {
		case Load:
			tr = append(tr, Step{Load, uint32(pc)})
			a = input(pc)
			pc++
		case Jump:
			tr = append(tr, Step{Jump, in.Val})
			if Test(in.Cond, a, in.Val) {
				pc = in.T
			} else {
				pc = in.F
			}
		case Ret:
			tr = append(tr, Step{Ret, in.Val})
			return in.Val, tr
		}
	}
}

// Edge is one branch of one jump.
type Edge struct {
	Jump   int
	Branch bool
}

type constraint struct {
	cond int
	val  uint32
	want bool
}

// Solver finds inputs that drive a label program through a chosen branch.
type Solver struct {
	p     Program
	preds [][]pred
	reach []bool
}

type pred struct {
	from   int
	isJump bool
	branch bool
}

// NewSolver precomputes the predecessor relation of the program.
func NewSolver(p Program) *Solver {
	n := len(p)
	preds := make([][]pred, n)
	reach := make([]bool, n)
	reach[0] = true
	for i, in := range p {
		if !reach[i] {
			continue
		}
		switch in.Kind {
		case Load:
			if i+1 < n {
				reach[i+1] = true
				preds[i+1] = append(preds[i+1], pred{from: i})
			}
		case Jump:
			reach[in.T], reach[in.F] = true, true
			preds[in.T] = append(preds[in.T], pred{i, true, true})
			preds[in.F] = append(preds[in.F], pred{i, true, false})
		}
	}
	return &Solver{p, preds, reach}
}

// Reachable reports whether instruction i is reachable in the control-flow graph.
func (s *Solver) Reachable(i int) bool { return s.reach[i] }

// SolveEdge searches an input that drives the label program from the entry
// through the given branch of the given jump. pick(n) returns a value in [0,n)
// and makes the search a pure function of the caller's random source. ok is
// false if no input was found (the edge may be infeasible).
func (s *Solver) SolveEdge(e Edge, pick func(n int) int, tries int) (map[int]uint32, bool) {
	p, preds, reach := s.p, s.preds, s.reach
	if !reach[e.Jump] {
		return nil, false
	}
	for try := 0; try < tries; try++ {
		// random backward walk from the jump to the entry
		type hop struct {
			at     int
			branch bool
			isJump bool
		}
		var rev []hop
		rev = append(rev, hop{e.Jump, e.Branch, true})
		at := e.Jump
		for at != 0 {
			ps := preds[at]
			pr := ps[pick(len(ps))]
			rev = append(rev, hop{pr.from, pr.branch, pr.isJump})
			at = pr.from
		}
		// forward: collect constraints per load
		cons := map[int][]constraint{} // key -1: initial accumulator (0)
		cur := -1
		for i := len(rev) - 1; i >= 0; i-- {
			h := rev[i]
			if !h.isJump {
				cur = h.at
				continue
			}
			in := p[h.at]
			cons[cur] = append(cons[cur], constraint{in.Cond, in.Val, h.branch})
		}
		out := map[int]uint32{}
		okAll := true
		for ld, cs := range cons {
			var cands []uint32
			if ld == -1 {
				cands = []uint32{0}
			} else {
				for _, c := range cs {
					cands = append(cands, c.val, c.val+1, c.val-1, ^c.val, c.val&-c.val, c.val|0x80000000)
				}
				cands = append(cands, 0, 0xffffffff, 1)
			}
			found := false
			for _, v := range cands {
				sat := true
				for _, c := range cs {
					if Test(c.cond, v, c.val) != c.want {
						sat = false
						break
					}
				}
				if sat {
					found = true
					if ld >= 0 {
						out[ld] = v
					}
					break
				}
			}
			if !found {
				okAll = false
				break
			}
		}
		if okAll {
			return out, true
		}
	}
	return nil, false
}
