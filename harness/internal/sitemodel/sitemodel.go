// Package sitemodel generates `go tool objdump`-style listings from a model of
// functions and syscall sites, together with what any correct extraction may
// and must report for them. It is written from the documented shapes (raw
// SYSCALL / INT $0x80 / SYSENTER preceded by a number load into AX, calls of the
// syscall wrappers preceded by a number store to 0(SP), the XORL AX, AX
// special case), not from the parser.
package sitemodel

import (
	"fmt"
	"strings"

	"verif/harness/internal/gen"
)

// Site kinds.
const (
	Filler      = "filler"
	RawSite     = "raw"         // MOVx $n, AX ... SYSCALL
	WrapperSite = "wrapper"     // MOVQ $n, 0(SP) ... CALL syscall.Syscall6(SB)
	XorSite     = "xor"         // XORL AX, AX ; SYSCALL  (number 0)
	BareSite    = "bare"        // SYSCALL without any number load in this function (scope bait)
	LoadOnly    = "load-only"   // a number load that no site follows (bait for the next function)
	GarbageNum  = "garbage-num" // number load whose operand is not a number
	XorOnly     = "xor-only"    // XORL AX, AX that no site follows (bait for the next function when it ends this one)
)

// Item is one element of a function body.
type Item struct {
	Kind    string `json:"kind"`
	Num     int    `json:"num,omitempty"`
	Hex     bool   `json:"hex,omitempty"`
	Gap     int    `json:"gap,omitempty"`     // filler instructions between the load and the site
	Wrapper string `json:"wrapper,omitempty"` // WrapperSite: which wrapper is called
	Instr   string `json:"instr,omitempty"`   // RawSite: SYSCALL / INT $0x80 / SYSENTER
	Reg     string `json:"reg,omitempty"`     // RawSite: AX or BP
}

// Func is one function of the listing.
type Func struct {
	Name  string `json:"name"`
	Items []Item `json:"items"`
	// NoLead: the first item follows the header line directly; NoRet: the last item's last line ends the function (no
	// filler, no RET behind it)
	NoLead bool `json:"no_lead,omitempty"`
	NoRet  bool `json:"no_ret,omitempty"`
}

// Listing is a whole disassembly.
type Listing struct {
	Arch  string `json:"arch"` // x86_64 or i386
	Funcs []Func `json:"funcs"`
}

// Wrappers are the wrapper functions whose calls are recognised.
var Wrappers = []string{"syscall.Syscall(SB)", "syscall.Syscall6(SB)", "syscall.RawSyscall(SB)", "syscall.RawSyscall6(SB)", "syscall.rawVforkSyscall(SB)",
	"golang.org/x/sys/unix.Syscall(SB)", "golang.org/x/sys/unix.Syscall6(SB)", "golang.org/x/sys/unix.RawSyscall(SB)", "golang.org/x/sys/unix.RawSyscall6(SB)",
	"golang.org/x/sys/unix.SyscallNoError(SB)", "golang.org/x/sys/unix.RawSyscallNoError(SB)", "golang.org/x/sys/unix.Syscall9(SB)"}

// fillers match none of the documented shapes.
var fillers = []string{"SUBQ $0x18, SP", "LEAQ 0x10(SP), BP", "CMPQ SP, 0x10(R14)", "JMP 0x45e3a0", "NOPL", "MOVQ BX, 0x8(SP)", "MOVQ $0x7, CX", "ADDQ $0x18, SP",
	"MOVL $0x3, DX", "XORL CX, CX", "CALL runtime.morestack_noctxt.abi0(SB)", "MOVQ 0x20(SP), AX", "TESTQ AX, AX", "JNE 0x401020", "PUSHQ BP", "POPQ BP", "INT $0x3",
	"MOVQ $0x10, 0x8(SP)", "CALL main.helper(SB)", "MOVUPS X15, 0x28(SP)",
	// symbols that contain the text of a move (the look-behind reads these lines too)
	"MOVQ main.MOVED(SB), CX", "JMP main.MOVMOV(SB)", "MOVQ $main.MOVABLE(SB), DX", "CALL main.reMOVe.MOVE(SB)", "LEAQ main.MOVQ.MOVL(SB), DI"}

type emitter struct {
	b    strings.Builder
	addr int
	line int
	file string
}

func (e *emitter) ins(text string) {
	e.addr += 4
	e.line++
	fmt.Fprintf(&e.b, "  %s:%d\t\t0x%x\t\t%08x\t\t%s\t\n", e.file, e.line, e.addr, e.addr*7, text)
}

func numText(n int, hex bool) string {
	if hex {
		return fmt.Sprintf("0x%x", n)
	}
	return fmt.Sprintf("%d", n)
}

// RenderFunc renders one function (starting with its TEXT line).
func RenderFunc(arch string, f Func, seed uint64, startAddr int) string {
	r := gen.NewRng(seed)
	e := &emitter{addr: startAddr, file: "file.go"}
	fmt.Fprintf(&e.b, "TEXT %s /src/%s\n", f.Name, e.file)
	fill := func(n int) {
		for i := 0; i < n; i++ {
			e.ins(fillers[r.Intn(len(fillers))])
		}
	}
	if !f.NoLead {
		fill(r.Intn(3))
	}
	for ii, it := range f.Items {
		switch it.Kind {
		case Filler:
			fill(1 + it.Gap)
		case RawSite:
			mov := "MOVL"
			if arch == "x86_64" && r.Intn(2) == 0 {
				mov = "MOVQ"
			}
			reg := it.Reg
			if reg == "" {
				reg = "AX"
			}
			e.ins(fmt.Sprintf("%s $%s, %s", mov, numText(it.Num, it.Hex), reg))
			fill(it.Gap)
			e.ins(it.Instr)
		case WrapperSite:
			mov := "MOVQ"
			if arch == "i386" {
				mov = "MOVL"
			}
			e.ins(fmt.Sprintf("%s $%s, 0(SP)", mov, numText(it.Num, it.Hex)))
			fill(it.Gap)
			e.ins("CALL " + it.Wrapper)
		case XorSite:
			e.ins("XORL AX, AX")
			e.ins(it.Instr)
		case BareSite:
			e.ins(it.Instr)
		case LoadOnly:
			e.ins(fmt.Sprintf("MOVL $%s, AX", numText(it.Num, it.Hex)))
		case GarbageNum:
			e.ins("MOVL $runtime.zerobase(SB), AX")
			e.ins(it.Instr)
		case XorOnly:
			e.ins("XORL AX, AX")
		}
		if !(f.NoRet && ii == len(f.Items)-1) {
			fill(r.Intn(2))
		}
	}
	if !f.NoRet {
		e.ins("RET")
	}
	return e.b.String()
}

// Render renders the whole listing; chunk i is function i.
func Render(l *Listing, seed uint64) (text string, chunks []string) {
	addr := 0x401000
	for i, f := range l.Funcs {
		c := RenderFunc(l.Arch, f, gen.Mix(seed, uint64(i)), addr)
		addr += 0x1000
		chunks = append(chunks, c)
	}
	return strings.Join(chunks, ""), chunks
}

// IsWrapperFunc reports whether the function is one of the syscall wrappers
// themselves (raw instructions inside them are not sites).
func IsWrapperFunc(name string) bool {
	for _, w := range Wrappers {
		if strings.Contains(name, w) || strings.HasSuffix(w, name) {
			return true
		}
	}
	return false
}

// Expect describes, per function, what a correct extraction may and must report.
type Expect struct {
	Func     string
	Possible map[int]bool // numbers loaded somewhere in this function (a site may only be attributed one of these)
	Must     []int        // canonical sites (number load directly followed by the trigger), in order
}

// NativeTrigger: the instruction is a documented syscall trigger of the listing's architecture (SYSCALL on x86_64,
// INT $0x80 and SYSENTER on i386). A trigger of the other architecture may appear in a listing (hand-written assembly),
// but a site is only required to be found for the native ones.
func NativeTrigger(arch, instr string) bool {
	if arch == "i386" {
		return instr == "INT $0x80" || instr == "SYSENTER"
	}
	return instr == "SYSCALL"
}

// Expectations computes the expectation of every function.
func Expectations(l *Listing, table map[int]string) []Expect {
	var out []Expect
	for _, f := range l.Funcs {
		e := Expect{Func: f.Name, Possible: map[int]bool{}}
		wrapperFn := IsWrapperFunc(f.Name)
		for _, it := range f.Items {
			switch it.Kind {
			case RawSite:
				e.Possible[it.Num] = true
				if _, ok := table[it.Num]; ok && it.Gap == 0 && !wrapperFn && NativeTrigger(l.Arch, it.Instr) {
					e.Must = append(e.Must, it.Num)
				}
			case WrapperSite:
				e.Possible[it.Num] = true
				if _, ok := table[it.Num]; ok && it.Gap == 0 {
					e.Must = append(e.Must, it.Num)
				}
			case XorSite, XorOnly:
				e.Possible[0] = true
			case LoadOnly:
				e.Possible[it.Num] = true
			}
		}
		out = append(out, e)
	}
	return out
}
