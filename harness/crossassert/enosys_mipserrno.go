//go:build linux && (mips || mipsle || mips64 || mips64le)

package crossassert

// WantENOSYS: the MIPS errno table of Linux differs from asm-generic.
const WantENOSYS uint64 = 89
