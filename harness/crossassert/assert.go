// Package crossassert fails to COMPILE unless every constant the library
// exposes equals the Linux kernel's UAPI value. The driver builds it for every
// GOOS/GOARCH pair of `go tool dist list`, so "builds" and "constants equal"
// are decided by the compiler under the real build context of each target.
// The expected values are literals taken from the vendored oracle
// (linux/seccomp.h, linux/prctl.h, asm-generic/errno*.h); a unit test checks
// that the literals in this file equal oracle.json.
package crossassert

import seccomp "github.com/elastic/go-seccomp-bpf"

// eq fails to compile unless a == b: the index 0 is the only one in range.
// (constant index expression: a-b and b-a must both be 0 and representable)

var _ = [1]struct{}{}[uint64(seccomp.ActionKillThread)-WantKillThread]
var _ = [1]struct{}{}[WantKillThread-uint64(seccomp.ActionKillThread)]
var _ = [1]struct{}{}[uint64(seccomp.ActionKillProcess)-WantKillProcess]
var _ = [1]struct{}{}[WantKillProcess-uint64(seccomp.ActionKillProcess)]
var _ = [1]struct{}{}[uint64(seccomp.ActionTrap)-WantTrap]
var _ = [1]struct{}{}[WantTrap-uint64(seccomp.ActionTrap)]
var _ = [1]struct{}{}[uint64(seccomp.ActionErrno)-WantErrno]
var _ = [1]struct{}{}[WantErrno-uint64(seccomp.ActionErrno)]
var _ = [1]struct{}{}[uint64(seccomp.ActionTrace)-WantTrace]
var _ = [1]struct{}{}[WantTrace-uint64(seccomp.ActionTrace)]
var _ = [1]struct{}{}[uint64(seccomp.ActionLog)-WantLog]
var _ = [1]struct{}{}[WantLog-uint64(seccomp.ActionLog)]
var _ = [1]struct{}{}[uint64(seccomp.ActionAllow)-WantAllow]
var _ = [1]struct{}{}[WantAllow-uint64(seccomp.ActionAllow)]
var _ = [1]struct{}{}[uint64(seccomp.ActionUserNotify)-WantUserNotif]
var _ = [1]struct{}{}[WantUserNotif-uint64(seccomp.ActionUserNotify)]
var _ = [1]struct{}{}[uint64(seccomp.FilterFlagTSync)-WantFlagTSync]
var _ = [1]struct{}{}[WantFlagTSync-uint64(seccomp.FilterFlagTSync)]
var _ = [1]struct{}{}[uint64(seccomp.FilterFlagLog)-WantFlagLog]
var _ = [1]struct{}{}[WantFlagLog-uint64(seccomp.FilterFlagLog)]
var _ = [1]struct{}{}[uint64(seccomp.VerifErrnoEPERM)-WantEPERM]
var _ = [1]struct{}{}[WantEPERM-uint64(seccomp.VerifErrnoEPERM)]
var _ = [1]struct{}{}[uint64(seccomp.VerifErrnoENOSYS)-WantENOSYS]
var _ = [1]struct{}{}[WantENOSYS-uint64(seccomp.VerifErrnoENOSYS)]
var _ = [1]struct{}{}[uint64(seccomp.VerifPrSetNoNewPrivs)-WantPrSetNoNewPrivs]
var _ = [1]struct{}{}[WantPrSetNoNewPrivs-uint64(seccomp.VerifPrSetNoNewPrivs)]
var _ = [1]struct{}{}[uint64(seccomp.VerifSeccompSetModeStrict)-WantSetModeStrict]
var _ = [1]struct{}{}[WantSetModeStrict-uint64(seccomp.VerifSeccompSetModeStrict)]
var _ = [1]struct{}{}[uint64(seccomp.VerifSeccompSetModeFilter)-WantSetModeFilter]
var _ = [1]struct{}{}[WantSetModeFilter-uint64(seccomp.VerifSeccompSetModeFilter)]
var _ = [1]struct{}{}[uint64(seccomp.VerifX32SyscallMask)-WantX32Bit]
var _ = [1]struct{}{}[WantX32Bit-uint64(seccomp.VerifX32SyscallMask)]

// Expected values (Linux UAPI).
const (
	WantKillThread      uint64 = 0x00000000
	WantKillProcess     uint64 = 0x80000000
	WantTrap            uint64 = 0x00030000
	WantErrno           uint64 = 0x00050000
	WantTrace           uint64 = 0x7ff00000
	WantLog             uint64 = 0x7ffc0000
	WantAllow           uint64 = 0x7fff0000
	WantUserNotif       uint64 = 0x7fc00000
	WantFlagTSync       uint64 = 1
	WantFlagLog         uint64 = 2
	WantEPERM           uint64 = 1
	WantPrSetNoNewPrivs uint64 = 38
	WantSetModeStrict   uint64 = 0
	WantSetModeFilter   uint64 = 1
	WantX32Bit          uint64 = 0x40000000
)
