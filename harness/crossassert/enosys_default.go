//go:build !(linux && (mips || mipsle || mips64 || mips64le))

package crossassert

// WantENOSYS is asm-generic/errno.h's value.
const WantENOSYS uint64 = 38
