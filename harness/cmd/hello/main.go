// hello is the "binary" handed to the profiler: any small Go ELF will do.
package main

import "fmt"

func main() { fmt.Println("hello") }
