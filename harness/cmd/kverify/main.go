// kverify asks the running kernel whether it accepts one raw seccomp program.
//
// The program is read from stdin (8 bytes per instruction: code u16, jt u8,
// jf u8, k u32, little endian). It is installed with seccomp(2) on a locked OS
// thread without thread-sync; the verdict is published through an atomic and
// printed by an unfiltered thread, which then calls exit_group. So the verdict
// does not depend on what the installed program permits (it may well kill).
// Run with GODEBUG=asyncpreemptoff=1 GOGC=off: the filtered thread must not
// perform any system call (not even sigreturn) after the installation.
package main

import (
	"encoding/binary"
	"fmt"
	"io"
	"os"
	"runtime"
	"sync/atomic"
	"syscall"
	"unsafe"
)

const (
	sysSeccompAMD64 = 317
	sysSeccomp386   = 354
)

func main() {
	b, _ := io.ReadAll(os.Stdin)
	n := len(b) / 8
	prog := make([]syscall.SockFilter, n)
	for i := 0; i < n; i++ {
		prog[i] = syscall.SockFilter{Code: binary.LittleEndian.Uint16(b[i*8:]), Jt: b[i*8+2], Jf: b[i*8+3], K: binary.LittleEndian.Uint32(b[i*8+4:])}
	}
	nr := uintptr(sysSeccompAMD64)
	if runtime.GOARCH == "386" {
		nr = sysSeccomp386
	}
	var state int32
	var res uintptr
	var errno syscall.Errno
	go func() {
		runtime.LockOSThread()
		if _, _, e := syscall.RawSyscall6(syscall.SYS_PRCTL, 38, 1, 0, 0, 0, 0); e != 0 {
			errno = e
			atomic.StoreInt32(&state, 2)
			for {
			}
		}
		var fp syscall.SockFprog
		fp.Len = uint16(n)
		if len(os.Args) > 1 && os.Args[1] == "len0" {
			fp.Len = 0
		}
		if n > 0 {
			fp.Filter = &prog[0]
		}
		r, _, e := syscall.RawSyscall(nr, 1, 0, uintptr(unsafe.Pointer(&fp)))
		res, errno = r, e
		atomic.StoreInt32(&state, 1)
		for {
		}
	}()
	for atomic.LoadInt32(&state) == 0 {
	}
	if atomic.LoadInt32(&state) == 2 {
		fmt.Printf("prctl errno=%d\n", int(errno))
		os.Exit(3)
	}
	fmt.Printf("ret=%d errno=%d\n", int(res), int(errno))
	os.Exit(0)
}
