// kchild is the throw-away child process of the kernel-level checks (C08-C11).
// It reads one JSON job from the file given as argument, runs its steps on
// locked OS threads (or on an unlocked goroutine) and prints one JSON line per
// event on stdout. Every action that may kill the process is announced before
// it is performed, so the parent can attribute a death to exactly one action.
package main

import (
	"encoding/hex"
	"encoding/json"
	"errors"
	"fmt"
	"io"
	"os"
	"runtime"
	"strconv"
	"strings"
	"sync"
	"sync/atomic"
	"syscall"
	"time"
	"unsafe"

	seccomp "github.com/elastic/go-seccomp-bpf"

	"verif/harness/internal/kjob"
)

var outMu sync.Mutex

func emit(v any) {
	b, _ := json.Marshal(v)
	b = append(b, '\n')
	outMu.Lock()
	_, err := os.Stdout.Write(b)
	outMu.Unlock()
	if err != nil {
		// the installed filter denies write(2) although every job policy allows it:
		// report through the exit status, the only channel left
		syscall.Exit(97)
	}
}

func gettid() int {
	r, _, _ := syscall.RawSyscall(syscall.SYS_GETTID, 0, 0, 0)
	return int(r)
}

// nnpOfCurrentThread uses prctl(PR_GET_NO_NEW_PRIVS) (39), a raw system call
// without scheduling point.
func nnpOfCurrentThread() int {
	r, _, e := syscall.RawSyscall6(syscall.SYS_PRCTL, 39, 0, 0, 0, 0, 0)
	if e != 0 {
		return -1
	}
	return int(r)
}

func statusOf(tid int) kjob.ThreadStatus {
	st := kjob.ThreadStatus{Tid: tid, Seccomp: -1, Filters: -1, NNP: -1}
	b, err := os.ReadFile("/proc/self/task/" + strconv.Itoa(tid) + "/status")
	if err != nil {
		st.Gone = true
		return st
	}
	for _, l := range strings.Split(string(b), "\n") {
		f := strings.Fields(l)
		if len(f) < 2 {
			continue
		}
		switch f[0] {
		case "Seccomp:":
			st.Seccomp, _ = strconv.Atoi(f[1])
		case "Seccomp_filters:":
			st.Filters, _ = strconv.Atoi(f[1])
		case "NoNewPrivs:":
			st.NNP, _ = strconv.Atoi(f[1])
		}
	}
	return st
}

func probe(p kjob.Probe) kjob.ProbeResult {
	r, _, e := syscall.RawSyscall6(uintptr(p.Nr), uintptr(p.Args[0]), uintptr(p.Args[1]), uintptr(p.Args[2]), uintptr(p.Args[3]), uintptr(p.Args[4]), uintptr(p.Args[5]))
	return kjob.ProbeResult{Ret: int64(int(r)), Errno: int(e)}
}

// ---- hooks ----

var (
	hookMu    sync.Mutex
	captures  []kjob.Capture
	schedInfo *kjob.SchedInfo
	curSched  *kjob.Sched
	// nested-load: the load to run inside the schedule point of the load running on thread nestedTid
	nestedInner *kjob.Step
	nestedTid   int
	nestedIndex int
)

func installHooks() {
	seccomp.VerifCapture = func(op uintptr, flags seccomp.FilterFlag, uargs unsafe.Pointer) {
		c := kjob.Capture{Op: uint64(op), Flags: uint32(flags), Tid: gettid(), NNP: nnpOfCurrentThread()}
		if op == 1 && uargs != nil {
			fp := (*syscall.SockFprog)(uargs)
			c.Len = int(fp.Len)
			if fp.Filter != nil && fp.Len > 0 {
				insts := unsafe.Slice(fp.Filter, int(fp.Len))
				buf := make([]byte, 0, 8*len(insts))
				for _, in := range insts {
					buf = append(buf, byte(in.Code), byte(in.Code>>8), in.Jt, in.Jf, byte(in.K), byte(in.K>>8), byte(in.K>>16), byte(in.K>>24))
				}
				c.Prog = hex.EncodeToString(buf)
			}
		}
		hookMu.Lock()
		captures = append(captures, c)
		hookMu.Unlock()
	}
	seccomp.VerifSchedPoint = func() {
		hookMu.Lock()
		in := nestedInner
		if in != nil && gettid() == nestedTid {
			nestedInner = nil
		} else {
			in = nil
		}
		savedCaptures, savedSched := captures, curSched
		hookMu.Unlock()
		if in != nil {
			threadsMu.Lock()
			var t *thread
			if in.Thread >= 0 && in.Thread < len(threads) {
				t = threads[in.Thread]
			}
			threadsMu.Unlock()
			if t == nil {
				emit(kjob.Event{Step: nestedIndex, Ev: "error", Err: "nested load: no such thread"})
			} else {
				iev := call(t, *in, nestedIndex)
				iev.Ev = "inner-load"
				iev.Idx = in.Thread
				emit(iev)
			}
			hookMu.Lock()
			captures, curSched = savedCaptures, savedSched
			hookMu.Unlock()
		}
		s := curSched
		info := &kjob.SchedInfo{TidBefore: gettid(), NNPBefore: nnpOfCurrentThread()}
		if s != nil {
			perturb(s)
		}
		info.TidAfter = gettid()
		info.NNPAfter = nnpOfCurrentThread()
		hookMu.Lock()
		schedInfo = info
		hookMu.Unlock()
	}
}

func perturb(s *kjob.Sched) {
	for i := 0; i < s.Gosched; i++ {
		runtime.Gosched()
	}
	if s.SleepUs > 0 {
		time.Sleep(time.Duration(s.SleepUs) * time.Microsecond)
	}
	for i := 0; i < s.Syscalls; i++ {
		// a blocking system call: the P is handed off and the goroutine may resume elsewhere
		ts := syscall.Timespec{Nsec: 200000}
		syscall.Nanosleep(&ts, nil)
	}
}

// ---- threads ----

type cmd struct {
	step  kjob.Step
	index int
	reply chan kjob.Event
}

type thread struct {
	idx int
	ch  chan cmd
	tid int32
}

var (
	threads   []*thread
	threadsMu sync.Mutex
)

func doLoad(st kjob.Step, idx int) kjob.Event {
	ev := kjob.Event{Step: idx, Ev: "load", Tid: gettid()}
	hookMu.Lock()
	captures = nil
	schedInfo = nil
	curSched = st.Sched
	hookMu.Unlock()
	f := seccomp.Filter{NoNewPrivs: st.Filter.NNP, Flag: seccomp.FilterFlag(st.Filter.Flag), Policy: *st.Filter.Policy.ToSeccomp()}
	if st.Filter.HostArch {
		f.Policy = *hostPolicy(st.Filter)
	}
	if st.Filter.Reassembled {
		func() {
			defer func() { recover() }()
			p := &f.Policy
			real := append([]seccomp.SyscallGroup(nil), p.Syscalls...)
			for i := range p.Syscalls {
				p.Syscalls[i].Names, p.Syscalls[i].NamesWithCondtions = []string{"sync"}, nil
			}
			p.Assemble()
			p.Dump(io.Discard)
			copy(p.Syscalls, real)
		}()
	}
	var err error
	func() {
		defer func() {
			if x := recover(); x != nil {
				ev.Panic = fmt.Sprint(x)
			}
		}()
		if st.Filter.PreNNP {
			seccomp.SetNoNewPrivs()
		}
		err = seccomp.LoadFilter(f)
	}()
	ev.Nil = err == nil && ev.Panic == ""
	if err != nil {
		ev.Err = err.Error()
		// the rules recognise the kernel's EINVAL by the errno text; a tree that words its errors differently but
		// still wraps the errno is described the same way
		if errors.Is(err, syscall.EINVAL) && !strings.Contains(ev.Err, "invalid argument") {
			ev.Err += " [errno EINVAL: invalid argument]"
		}
	}
	ev.TidAfter = gettid()
	hookMu.Lock()
	ev.Captures = captures
	ev.Sched = schedInfo
	curSched = nil
	hookMu.Unlock()
	return ev
}

// hostPolicy builds the policy without the arch setter (nil arch => GOARCH), the way users do.
func hostPolicy(fs *kjob.FilterSpec) *seccomp.Policy {
	p := fs.Policy
	p.Arch = ""
	return p.ToSeccomp()
}

func exec(t *thread, c cmd) kjob.Event {
	st := c.step
	switch st.Op {
	case "load":
		ev := doLoad(st, c.index)
		if t == nil {
			// a load from an ordinary goroutine: which thread it ended on is only known now (later steps may even end
			// that thread), so the state of all threads is recorded with the event
			ev.Status = allStatus()
		}
		return ev
	case "nested-load":
		hookMu.Lock()
		nestedInner, nestedTid, nestedIndex = st.Inner, gettid(), c.index
		hookMu.Unlock()
		ev := doLoad(st, c.index)
		hookMu.Lock()
		if nestedInner != nil {
			// the outer load never reached the schedule point (failed before): the inner load did not run
			nestedInner = nil
			ev.K = -1
		}
		hookMu.Unlock()
		return ev
	case "supported":
		ev := kjob.Event{Step: c.index, Ev: "supported", Tid: gettid()}
		ev.Supported = seccomp.Supported()
		return ev
	case "nnp":
		ev := kjob.Event{Step: c.index, Ev: "nnp", Tid: gettid()}
		if err := seccomp.SetNoNewPrivs(); err != nil {
			ev.Err = err.Error()
		}
		return ev
	case "probe":
		ev := kjob.Event{Step: c.index, Ev: "probe", Tid: gettid()}
		for k, p := range st.Probes {
			emit(kjob.Event{Step: c.index, Ev: "probe-begin", K: k, Tid: ev.Tid})
			r := probe(p)
			ev.Results = append(ev.Results, r)
		}
		return ev
	case "outer-enosys-thread":
		// the ENOSYS fault for the calling thread only (works whatever filters other threads carry)
		return kjob.Event{Step: c.index, Ev: "outer-enosys", Tid: gettid(), Err: installEnosysHere(0)}
	case "outer-enosys-thread-nonnp":
		return kjob.Event{Step: c.index, Ev: "outer-enosys", Tid: gettid(), Err: installEnosys(0, false)}
	case "outer-deny-strict-thread":
		return kjob.Event{Step: c.index, Ev: "outer-deny-strict", Tid: gettid(), Err: installDenyStrictHere()}
	case "outer-deny-nnp-thread":
		return kjob.Event{Step: c.index, Ev: "outer-deny-nnp", Tid: gettid(), Err: installDenyNNPHere()}
	case "outer-deny-avail-thread":
		return kjob.Event{Step: c.index, Ev: "outer-deny-avail", Tid: gettid(), Err: installDenySeccompOpHere(2)}
	case "status":
		return kjob.Event{Step: c.index, Ev: "thread-status", Tid: gettid(), Status: []kjob.ThreadStatus{statusOf(gettid())}}
	}
	return kjob.Event{Step: c.index, Ev: "error", Err: "unknown op " + st.Op}
}

func startThread(state string) *thread {
	t := &thread{ch: make(chan cmd)}
	ready := make(chan struct{})
	go func() {
		runtime.LockOSThread()
		atomic.StoreInt32(&t.tid, int32(gettid()))
		close(ready)
		for c := range t.ch {
			c.reply <- exec(t, c)
		}
		// never unlock: the thread ends with the goroutine
	}()
	<-ready
	threadsMu.Lock()
	t.idx = len(threads)
	threads = append(threads, t)
	threadsMu.Unlock()
	return t
}

func call(t *thread, st kjob.Step, idx int) kjob.Event {
	c := cmd{step: st, index: idx, reply: make(chan kjob.Event, 1)}
	t.ch <- c
	// a command thread that was put into strict mode (or otherwise killed by the operation) never answers: say so
	// instead of hanging until the harness gives up
	tid := int(atomic.LoadInt32(&t.tid))
	for waited := 0; ; waited++ {
		select {
		case ev := <-c.reply:
			return ev
		case <-time.After(500 * time.Millisecond):
			if _, err := os.Stat(fmt.Sprintf("/proc/self/task/%d", tid)); err != nil && waited >= 1 {
				return kjob.Event{Step: idx, Ev: "thread-died", Tid: tid, Err: "the command thread no longer exists after " + st.Op}
			}
			if waited > 240 {
				return kjob.Event{Step: idx, Ev: "thread-died", Tid: tid, Err: "no answer from the command thread after " + st.Op}
			}
		}
	}
}

// ---- C10: threads in a state while the load runs ----

type stateThread struct {
	idx     int
	state   string
	tid     int
	futexCh chan struct{}
	pipeW   int
}

var (
	stateThreads []*stateThread
	releaseFlag  int32
	stateReports chan kjob.Event
)

func startStateThread(idx int, state string, stepIdx int, probes func() []kjob.Probe) *stateThread {
	st := &stateThread{idx: idx, state: state, futexCh: make(chan struct{}), pipeW: -1}
	ready := make(chan struct{})
	var pipeR int = -1
	if state == "read" {
		var p [2]int
		if err := syscall.Pipe(p[:]); err == nil {
			pipeR, st.pipeW = p[0], p[1]
		}
	}
	go func() {
		runtime.LockOSThread()
		st.tid = gettid()
		close(ready)
		switch state {
		case "spin":
			for atomic.LoadInt32(&releaseFlag) == 0 {
				for k := 0; k < 20000; k++ {
					if atomic.LoadInt32(&releaseFlag) != 0 {
						break
					}
				}
				runtime.Gosched()
			}
		case "nanosleep":
			for atomic.LoadInt32(&releaseFlag) == 0 {
				ts := syscall.Timespec{Nsec: 2000000}
				syscall.Nanosleep(&ts, nil)
			}
		case "read":
			var buf [1]byte
			// blocking read on a blocking descriptor: the thread sits inside read(2)
			syscall.Syscall(syscall.SYS_READ, uintptr(pipeR), uintptr(unsafe.Pointer(&buf[0])), 1)
		case "futex":
			<-st.futexCh
		case "spawner":
			for atomic.LoadInt32(&releaseFlag) == 0 {
				done := make(chan struct{})
				go func() {
					runtime.LockOSThread() // never unlocked: the OS thread is destroyed with the goroutine
					close(done)
				}()
				<-done
				// keep creating and destroying threads, but leave the (possibly single) P to the others most of the time
				ts := syscall.Timespec{Nsec: 1000000}
				syscall.Nanosleep(&ts, nil)
			}
		}
		// released: everything from here on begins after LoadFilter returned
		ev := kjob.Event{Step: stepIdx, Ev: "state-thread", Idx: idx, Tid: st.tid, State: state}
		for _, p := range probes() {
			ev.Results = append(ev.Results, probe(p))
		}
		ev.Status = []kjob.ThreadStatus{statusOf(st.tid)}
		stateReports <- ev
	}()
	<-ready
	return st
}

func allStatus() []kjob.ThreadStatus {
	known := map[int]*kjob.ThreadStatus{}
	var out []kjob.ThreadStatus
	threadsMu.Lock()
	for _, t := range threads {
		s := statusOf(int(atomic.LoadInt32(&t.tid)))
		s.Idx, s.Role = t.idx, "command"
		out = append(out, s)
		known[s.Tid] = &s
	}
	threadsMu.Unlock()
	for _, st := range stateThreads {
		s := statusOf(st.tid)
		s.Idx, s.Role = st.idx, "state:"+st.state
		out = append(out, s)
		known[s.Tid] = &s
	}
	ents, _ := os.ReadDir("/proc/self/task")
	for _, e := range ents {
		tid, _ := strconv.Atoi(e.Name())
		if _, ok := known[tid]; ok || tid == 0 {
			continue
		}
		s := statusOf(tid)
		if s.Gone {
			continue
		}
		s.Idx, s.Role = -1, "runtime"
		out = append(out, s)
	}
	return out
}

var stopSpinners int32

// installEinvalLogFilter: in every thread, seccomp(SECCOMP_SET_MODE_FILTER, flags, ...) with the log bit in flags is
// answered EINVAL (a kernel before 4.14 or a sandbox that does not know the flag); everything else is allowed.
func installEinvalLogFilter() string { return installEinvalLog(true) }

// installEinvalLog: on all threads, seccomp(SET_MODE_FILTER) with the LOG flag is answered EINVAL (what a kernel before
// 4.14 does). withNNP=false: installed as root without touching no_new_privs.
func installEinvalLog(withNNP bool) string {
	res := make(chan string, 1)
	go func() {
		runtime.LockOSThread()
		defer runtime.UnlockOSThread()
		nr := uint32(317)
		if runtime.GOARCH == "386" {
			nr = 354
		}
		prog := []syscall.SockFilter{
			{Code: 0x20, K: 0},                // ld [0]
			{Code: 0x15, Jt: 0, Jf: 5, K: nr}, // jeq #seccomp
			{Code: 0x20, K: 16},               // ld [16] (operation)
			{Code: 0x15, Jt: 0, Jf: 3, K: 1},  // jeq #SECCOMP_SET_MODE_FILTER
			{Code: 0x20, K: 24},               // ld [24] (flags, low word)
			{Code: 0x45, Jt: 0, Jf: 1, K: 2},  // jset #SECCOMP_FILTER_FLAG_LOG
			{Code: 0x06, K: 0x00050000 | 22},  // ret ERRNO|EINVAL
			{Code: 0x06, K: 0x7fff0000},       // ret ALLOW
		}
		fp := syscall.SockFprog{Len: uint16(len(prog)), Filter: &prog[0]}
		if withNNP {
			if _, _, e := syscall.RawSyscall6(syscall.SYS_PRCTL, 38, 1, 0, 0, 0, 0); e != 0 {
				res <- "prctl: " + e.Error()
				return
			}
		}
		if r, _, e := syscall.RawSyscall(uintptr(nr), 1, 1, uintptr(unsafe.Pointer(&fp))); e != 0 || r != 0 {
			res <- fmt.Sprintf("seccomp: ret %d errno %v", r, e)
			return
		}
		res <- ""
	}()
	return <-res
}

func installEnosysFilter() string {
	res := make(chan string, 1)
	go func() {
		runtime.LockOSThread()
		defer runtime.UnlockOSThread()
		res <- installEnosysHere(1)
	}()
	return <-res
}

// installEnosysHere installs, on the calling thread (flags: 1 = and on all others), a filter that
// answers ENOSYS to seccomp(2) and allows everything else.
func installEnosysHere(flags uintptr) string { return installEnosys(flags, true) }

// installEnosys: with nnp false the filter is installed without touching no_new_privs (needs CAP_SYS_ADMIN).
func installEnosys(flags uintptr, nnp bool) string {
	nr := uint32(317)
	if runtime.GOARCH == "386" {
		nr = 354
	}
	prog := []syscall.SockFilter{
		{Code: 0x20, K: 0},                // ld [0]  (syscall number)
		{Code: 0x15, Jt: 0, Jf: 1, K: nr}, // jeq #seccomp
		{Code: 0x06, K: 0x00050000 | 38},  // ret ERRNO|ENOSYS
		{Code: 0x06, K: 0x7fff0000},       // ret ALLOW
	}
	fp := syscall.SockFprog{Len: uint16(len(prog)), Filter: &prog[0]}
	if nnp {
		if _, _, e := syscall.RawSyscall6(syscall.SYS_PRCTL, 38, 1, 0, 0, 0, 0); e != 0 {
			return "prctl: " + e.Error()
		}
	}
	r, _, e := syscall.RawSyscall(uintptr(nr), 1, flags, uintptr(unsafe.Pointer(&fp)))
	if e != 0 || r != 0 {
		return fmt.Sprintf("seccomp: ret %d errno %v", r, e)
	}
	return ""
}

// installDenyNNPHere installs, on the calling thread and without setting no_new_privs (needs CAP_SYS_ADMIN), a filter
// that answers EPERM to prctl(PR_SET_NO_NEW_PRIVS, ...) and allows everything else: an enclosing sandbox that forbids
// the call.
func installDenyNNPHere() string {
	nr, prctlNr := uint32(317), uint32(157)
	if runtime.GOARCH == "386" {
		nr, prctlNr = 354, 172
	}
	prog := []syscall.SockFilter{
		{Code: 0x20, K: 0},                     // ld [0]  (syscall number)
		{Code: 0x15, Jt: 0, Jf: 3, K: prctlNr}, // jeq #prctl
		{Code: 0x20, K: 16},                    // ld [16] (low word of argument 0; little-endian hosts)
		{Code: 0x15, Jt: 0, Jf: 1, K: 38},      // jeq #PR_SET_NO_NEW_PRIVS
		{Code: 0x06, K: 0x00050000 | 1},        // ret ERRNO|EPERM
		{Code: 0x06, K: 0x7fff0000},            // ret ALLOW
	}
	fp := syscall.SockFprog{Len: uint16(len(prog)), Filter: &prog[0]}
	r, _, e := syscall.RawSyscall(uintptr(nr), 1, 0, uintptr(unsafe.Pointer(&fp)))
	if e != 0 || r != 0 {
		return fmt.Sprintf("seccomp: ret %d errno %v", r, e)
	}
	return ""
}

// installDenyStrictHere: on the calling thread, without touching no_new_privs (needs CAP_SYS_ADMIN), a filter that
// answers EPERM to seccomp(SECCOMP_SET_MODE_STRICT, ...) only - the call commonly used to probe for seccomp support -
// and allows everything else, SECCOMP_SET_MODE_FILTER included.
func installDenyStrictHere() string { return installDenySeccompOpHere(0) }

// installDenySeccompOpHere: on the calling thread, as root and without touching no_new_privs, seccomp(op, ...) is answered
// EPERM for the given operation (0 = SECCOMP_SET_MODE_STRICT, 2 = SECCOMP_GET_ACTION_AVAIL: what a kernel before 4.14 or
// a container profile that only knows the two install operations does); everything else is allowed.
func installDenySeccompOpHere(op uint32) string {
	nr := uint32(317)
	if runtime.GOARCH == "386" {
		nr = 354
	}
	prog := []syscall.SockFilter{
		{Code: 0x20, K: 0},                // ld [0]
		{Code: 0x15, Jt: 0, Jf: 3, K: nr}, // jeq #seccomp
		{Code: 0x20, K: 16},               // ld [16] (low word of argument 0)
		{Code: 0x15, Jt: 0, Jf: 1, K: op}, // jeq #operation
		{Code: 0x06, K: 0x00050000 | 1},   // ret ERRNO|EPERM
		{Code: 0x06, K: 0x7fff0000},       // ret ALLOW
	}
	fp := syscall.SockFprog{Len: uint16(len(prog)), Filter: &prog[0]}
	r, _, e := syscall.RawSyscall(uintptr(nr), 1, 0, uintptr(unsafe.Pointer(&fp)))
	if e != 0 || r != 0 {
		return fmt.Sprintf("seccomp: ret %d errno %v", r, e)
	}
	return ""
}

func run(job *kjob.Job) {
	if _, err := os.Stat("/proc/sys/kernel/seccomp/actions_logged"); err != nil {
		emit(kjob.Event{Step: -1, Ev: "env", State: "seccomp-sysctl-hidden"})
	}
	if job.Uname26 {
		if _, _, e := syscall.Syscall(syscall.SYS_PERSONALITY, 0x0020000, 0, 0); e != 0 {
			emit(kjob.Event{Step: -1, Ev: "error", Err: "personality: " + e.Error()})
		}
	}
	var releaseProbes []kjob.Probe
	for i, st := range job.Steps {
		switch st.Op {
		case "mkthreads":
			for k := 0; k < st.N; k++ {
				startThread("")
			}
			emit(kjob.Event{Step: i, Ev: "mkthreads", K: st.N})
		case "states":
			stateReports = make(chan kjob.Event, len(st.States)+1)
			for k, s := range st.States {
				stateThreads = append(stateThreads, startStateThread(k, s.State, i, func() []kjob.Probe { return releaseProbes }))
			}
			// give the threads time to get into their system calls
			time.Sleep(3 * time.Millisecond)
			emit(kjob.Event{Step: i, Ev: "states", K: len(st.States)})
		case "spinners":
			for k := 0; k < st.N; k++ {
				go func() {
					// always runnable, so every P stays busy, but cooperative: the
					// coordinator is not starved when GOMAXPROCS is small
					for atomic.LoadInt32(&stopSpinners) == 0 {
						for k := 0; k < 2000; k++ {
							if atomic.LoadInt32(&stopSpinners) != 0 {
								break
							}
						}
						runtime.Gosched()
					}
				}()
			}
			time.Sleep(2 * time.Millisecond)
			emit(kjob.Event{Step: i, Ev: "spinners", K: st.N})
		case "stop-spinners":
			atomic.StoreInt32(&stopSpinners, 1)
			emit(kjob.Event{Step: i, Ev: "stop-spinners"})
		case "sleep":
			time.Sleep(time.Duration(st.N) * time.Microsecond)
		case "control":
			// the same perturbation as at the schedule point, on an unpinned goroutine: did it migrate?
			done := make(chan kjob.Event, 1)
			go func() {
				before := gettid()
				if st.Sched != nil {
					perturb(st.Sched)
				}
				after := gettid()
				done <- kjob.Event{Step: i, Ev: "control", Tid: before, TidAfter: after, Migrated: before != after}
			}()
			emit(<-done)
		case "load", "nested-load", "supported", "nnp", "probe", "status", "outer-enosys-thread", "outer-enosys-thread-nonnp", "outer-deny-nnp-thread", "outer-deny-strict-thread", "outer-deny-avail-thread":
			emit(kjob.Event{Step: i, Ev: "begin:" + st.Op, Idx: st.Thread})
			if st.Thread < 0 {
				done := make(chan kjob.Event, 1)
				st := st
				go func() { done <- exec(nil, cmd{step: st, index: i}) }()
				emit(<-done)
			} else {
				threadsMu.Lock()
				var t *thread
				if st.Thread < len(threads) {
					t = threads[st.Thread]
				}
				threadsMu.Unlock()
				if t == nil {
					emit(kjob.Event{Step: i, Ev: "error", Err: "no such thread"})
					continue
				}
				ev := call(t, st, i)
				ev.Idx = st.Thread
				emit(ev)
			}
		case "outer-einval-log":
			emit(kjob.Event{Step: i, Ev: "outer-einval-log", Err: installEinvalLogFilter()})
		case "outer-einval-log-nonnp":
			emit(kjob.Event{Step: i, Ev: "outer-einval-log", Err: installEinvalLog(false)})
		case "churn":
			// goroutines that stop the world over and over: every running goroutine is descheduled each time and resumes on
			// whatever thread picks it up
			for k := 0; k < st.N; k++ {
				go func() {
					var ms runtime.MemStats
					for atomic.LoadInt32(&stopSpinners) == 0 {
						runtime.ReadMemStats(&ms)
					}
				}()
			}
			emit(kjob.Event{Step: i, Ev: "churn", K: st.N})
		case "outer-enosys":
			// fault injection: from now on seccomp(2) fails with ENOSYS in every thread (an outer
			// sandbox or an old kernel), everything else is allowed
			emit(kjob.Event{Step: i, Ev: "outer-enosys", Err: installEnosysFilter()})
		case "allstatus":
			emit(kjob.Event{Step: i, Ev: "status", Status: allStatus()})
		case "release":
			releaseProbes = st.Probes
			atomic.StoreInt32(&releaseFlag, 1)
			for _, s := range stateThreads {
				switch s.state {
				case "read":
					if s.pipeW >= 0 {
						syscall.Write(s.pipeW, []byte{1})
					}
				case "futex":
					close(s.futexCh)
				}
			}
			for range stateThreads {
				select {
				case ev := <-stateReports:
					ev.Step = i
					emit(ev)
				case <-time.After(8 * time.Second):
					emit(kjob.Event{Step: i, Ev: "error", Err: "state thread did not report"})
				}
			}
		case "spawn":
			// threads created after the load
			for k := 0; k < st.N; k++ {
				done := make(chan kjob.Event, 1)
				probes := st.Probes
				go func(k int) {
					runtime.LockOSThread()
					tid := gettid()
					ev := kjob.Event{Step: i, Ev: "spawned-thread", Idx: k, Tid: tid}
					for _, p := range probes {
						ev.Results = append(ev.Results, probe(p))
					}
					ev.Status = []kjob.ThreadStatus{statusOf(tid)}
					done <- ev
				}(k)
				emit(<-done)
			}
		default:
			emit(kjob.Event{Step: i, Ev: "error", Err: "unknown op " + st.Op})
		}
	}
}

func main() {
	if len(os.Args) < 2 {
		fmt.Fprintln(os.Stderr, "usage: kchild job.json")
		os.Exit(2)
	}
	b, err := os.ReadFile(os.Args[1])
	if err != nil {
		fmt.Fprintln(os.Stderr, err)
		os.Exit(2)
	}
	var job kjob.Job
	if err := json.Unmarshal(b, &job); err != nil {
		fmt.Fprintln(os.Stderr, err)
		os.Exit(2)
	}
	if job.GOMAXPROCS > 0 {
		runtime.GOMAXPROCS(job.GOMAXPROCS)
	}
	installHooks()
	emit(kjob.Event{Step: -1, Ev: "start", Tid: gettid(), Arch: runtime.GOARCH, Uid: os.Getuid()})
	run(&job)
	emit(kjob.Event{Step: len(job.Steps), Ev: "done"})
	os.Exit(0)
}
