// hellodyn is a dynamically linked Go ELF (built with cgo enabled: the net and os/user packages then pull in the C
// library): the profiler notices DT_NEEDED entries and warns that it cannot see into the libraries. The warning is not
// part of the profile.
package main

import (
	"fmt"
	"net"
	"os/user"
)

func main() {
	u, _ := user.Current()
	_, err := net.LookupHost("localhost")
	fmt.Println("hello", u != nil, err)
}
