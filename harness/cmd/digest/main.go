// digest prints, from a fresh process, digests of everything that must not
// depend on the process: compiled programs of a corpus, text forms of flag and
// action values, and every architecture/table lookup. Map iteration order
// differs between processes, so any dependence on it shows as differing digests.
package main

import (
	"crypto/sha256"
	"encoding/json"
	"fmt"
	"os"
	"sort"

	seccomp "github.com/elastic/go-seccomp-bpf"
	"github.com/elastic/go-seccomp-bpf/arch"
	"golang.org/x/net/bpf"

	"verif/harness/internal/spec"
)

func main() {
	// programs
	h := sha256.New()
	compiled, rejected := 0, 0
	if len(os.Args) > 1 {
		b, err := os.ReadFile(os.Args[1])
		if err != nil {
			fmt.Println("error:", err)
			os.Exit(2)
		}
		var corpus []spec.Policy
		if err := json.Unmarshal(b, &corpus); err != nil {
			fmt.Println("error:", err)
			os.Exit(2)
		}
		for i, p := range corpus {
			insts, err := p.ToSeccomp().Assemble()
			if err != nil {
				rejected++
				fmt.Fprintf(h, "%d:rejected\n", i)
				continue
			}
			raw, err := bpf.Assemble(insts)
			if err != nil {
				fmt.Fprintf(h, "%d:unencodable\n", i)
				continue
			}
			compiled++
			fmt.Fprintf(h, "%d:%d:", i, len(raw))
			for _, r := range raw {
				fmt.Fprintf(h, "%x,%x,%x,%x;", r.Op, r.Jt, r.Jf, r.K)
			}
			fmt.Fprintln(h)
		}
	}
	fmt.Printf("programs=%x compiled=%d rejected=%d\n", h.Sum(nil), compiled, rejected)

	// text forms
	h = sha256.New()
	for v := uint32(0); v < 64; v++ {
		fmt.Fprintf(h, "%d=%s;", v, seccomp.FilterFlag(v).String())
		b, _ := seccomp.FilterFlag(v).MarshalText()
		fmt.Fprintf(h, "%s;", b)
	}
	for _, v := range []uint32{0xffffffff, 0x80000003, 0x7, 0x10002, 0xfffffffe} {
		fmt.Fprintf(h, "%d=%s;", v, seccomp.FilterFlag(v).String())
	}
	for _, a := range []uint32{0, 0x80000000, 0x30000, 0x50000, 0x7ff00000, 0x7ffc0000, 0x7fff0000, 0x7fc00000, 1, 0x50001} {
		fmt.Fprintf(h, "%d=%s;", a, seccomp.Action(a).String())
	}
	fmt.Printf("texts=%x\n", h.Sum(nil))

	// lookups
	h = sha256.New()
	for _, name := range []string{"arm", "i386", "386", "x32", "x86_64", "amd64", "aarch64", "arm64", "ARM64", "X86_64", "ppc64", "mips", ""} {
		info, err := arch.GetInfo(name)
		if err != nil {
			fmt.Fprintf(h, "%s:unsupported;", name)
			continue
		}
		fmt.Fprintf(h, "%s:%s:%d:%d:", name, info.Name, uint32(info.ID), info.SeccompMask)
		names := make([]string, 0, len(info.SyscallNames))
		for n := range info.SyscallNames {
			names = append(names, n)
		}
		sort.Strings(names)
		for _, n := range names {
			fmt.Fprintf(h, "%s=%d,", n, info.SyscallNames[n])
		}
		nums := make([]int, 0, len(info.SyscallNumbers))
		for n := range info.SyscallNumbers {
			nums = append(nums, n)
		}
		sort.Ints(nums)
		for _, n := range nums {
			fmt.Fprintf(h, "%d=%s,", n, info.SyscallNumbers[n])
		}
	}
	fmt.Printf("lookups=%x\n", h.Sum(nil))
}
