// digest prints, from a fresh process, digests of everything that must not
// depend on the process: compiled programs of a corpus, text forms of flag and
// action values, and every architecture/table lookup. Map iteration order
// differs between processes, so any dependence on it shows as differing digests.
package main

import (
	"crypto/sha256"
	"encoding/json"
	"fmt"
	"os"
	"runtime"
	"sort"
	"strings"
	"syscall"
	"unsafe"

	seccomp "github.com/elastic/go-seccomp-bpf"
	"github.com/elastic/go-seccomp-bpf/arch"
	"golang.org/x/net/bpf"

	"verif/harness/internal/spec"
)

// installOuter puts the whole process under a filter of the kind an enclosing sandbox or an old kernel presents:
// seccomp(2) and/or prctl(2) fail. What the library compiles must not depend on that.
func installOuter(kind string) error {
	secNr, prctlNr := uint32(317), uint32(157)
	if runtime.GOARCH == "386" {
		secNr, prctlNr = 354, 172
	}
	var nr, ret uint32
	switch kind {
	case "seccomp-eperm":
		nr, ret = secNr, 0x00050000|1
	case "seccomp-enosys":
		nr, ret = secNr, 0x00050000|38
	case "prctl-eperm":
		nr, ret = prctlNr, 0x00050000|1
	default:
		return fmt.Errorf("unknown outer filter %q", kind)
	}
	prog := []syscall.SockFilter{
		{Code: 0x20, K: 0},
		{Code: 0x15, Jt: 0, Jf: 1, K: nr},
		{Code: 0x06, K: ret},
		{Code: 0x06, K: 0x7fff0000},
	}
	fp := syscall.SockFprog{Len: uint16(len(prog)), Filter: &prog[0]}
	runtime.LockOSThread()
	defer runtime.UnlockOSThread()
	if _, _, e := syscall.RawSyscall6(syscall.SYS_PRCTL, 38, 1, 0, 0, 0, 0); e != 0 {
		return e
	}
	if r, _, e := syscall.RawSyscall(uintptr(secNr), 1, 1, uintptr(unsafe.Pointer(&fp))); e != 0 || r != 0 {
		return fmt.Errorf("seccomp: ret %d errno %v", r, e)
	}
	return nil
}

// programsMode prints one JSON line per policy of the corpus: the compiled program or the error.
func programsMode(path string) {
	b, err := os.ReadFile(path)
	if err != nil {
		fmt.Println("error:", err)
		os.Exit(2)
	}
	var corpus []spec.Policy
	if err := json.Unmarshal(b, &corpus); err != nil {
		fmt.Println("error:", err)
		os.Exit(2)
	}
	enc := json.NewEncoder(os.Stdout)
	for i, p := range corpus {
		type line struct {
			I     int         `json:"i"`
			Err   string      `json:"err,omitempty"`
			Panic string      `json:"panic,omitempty"`
			Prog  [][4]uint32 `json:"prog,omitempty"`
		}
		l := line{I: i}
		func() {
			defer func() {
				if x := recover(); x != nil {
					l.Panic = fmt.Sprint(x)
				}
			}()
			insts, err := p.ToSeccomp().Assemble()
			if err != nil {
				l.Err = err.Error()
				return
			}
			raw, err := bpf.Assemble(insts)
			if err != nil {
				l.Err = "unencodable: " + err.Error()
				return
			}
			for _, r := range raw {
				l.Prog = append(l.Prog, [4]uint32{uint32(r.Op), uint32(r.Jt), uint32(r.Jf), r.K})
			}
		}()
		enc.Encode(l)
	}
	fmt.Println(`{"done":true}`)
}

// parseMode prints what the two name parsers make of the documented names (three letter cases), of the printed and
// marshalled forms of every named action, and of a few unknown names: one line "kind input = value | error".
func parseMode() {
	for _, n := range []string{"kill_thread", "kill_process", "trap", "errno", "trace", "log", "allow", "nope", "permit", ""} {
		for _, in := range []string{n, strings.ToUpper(n), strings.Title(n)} {
			a := seccomp.Action(0xdeadbeef)
			if err := a.Unpack(in); err != nil {
				fmt.Printf("action %q = error\n", in)
				continue
			}
			txt, _ := a.MarshalText()
			var b, c seccomp.Action
			e1, e2 := b.Unpack(a.String()), c.Unpack(string(txt))
			fmt.Printf("action %q = %#x printed %q back %#x %v marshalled %q back %#x %v\n", in, uint32(a), a.String(), uint32(b), e1 == nil, txt, uint32(c), e2 == nil)
		}
	}
	for _, n := range []string{"Equal", "NotEqual", "GreaterThan", "LessThan", "GreaterOrEqual", "LessOrEqual", "BitsSet", "BitsNotSet", "Nope"} {
		for _, in := range []string{n, strings.ToUpper(n), strings.ToLower(n)} {
			var o seccomp.Operation
			if err := o.Unpack(in); err != nil {
				fmt.Printf("operation %q = error\n", in)
				continue
			}
			fmt.Printf("operation %q = %s\n", in, string(o))
		}
	}
	fmt.Println("done")
}

func main() {
	if k := os.Getenv("DIGEST_OUTER"); k != "" {
		if err := installOuter(k); err != nil {
			fmt.Println("error: outer filter:", err)
			os.Exit(3)
		}
	}
	if len(os.Args) > 2 && os.Args[1] == "-programs" {
		programsMode(os.Args[2])
		return
	}
	if len(os.Args) > 1 && os.Args[1] == "-parse" {
		parseMode()
		return
	}
	// programs
	h := sha256.New()
	compiled, rejected := 0, 0
	if len(os.Args) > 1 {
		b, err := os.ReadFile(os.Args[1])
		if err != nil {
			fmt.Println("error:", err)
			os.Exit(2)
		}
		var corpus []spec.Policy
		if err := json.Unmarshal(b, &corpus); err != nil {
			fmt.Println("error:", err)
			os.Exit(2)
		}
		for i, p := range corpus {
			insts, err := p.ToSeccomp().Assemble()
			if err != nil {
				rejected++
				fmt.Fprintf(h, "%d:rejected\n", i)
				continue
			}
			raw, err := bpf.Assemble(insts)
			if err != nil {
				fmt.Fprintf(h, "%d:unencodable\n", i)
				continue
			}
			compiled++
			fmt.Fprintf(h, "%d:%d:", i, len(raw))
			for _, r := range raw {
				fmt.Fprintf(h, "%x,%x,%x,%x;", r.Op, r.Jt, r.Jf, r.K)
			}
			fmt.Fprintln(h)
		}
	}
	fmt.Printf("programs=%x compiled=%d rejected=%d\n", h.Sum(nil), compiled, rejected)

	// text forms
	h = sha256.New()
	for v := uint32(0); v < 64; v++ {
		fmt.Fprintf(h, "%d=%s;", v, seccomp.FilterFlag(v).String())
		b, _ := seccomp.FilterFlag(v).MarshalText()
		fmt.Fprintf(h, "%s;", b)
	}
	for _, v := range []uint32{0xffffffff, 0x80000003, 0x7, 0x10002, 0xfffffffe} {
		fmt.Fprintf(h, "%d=%s;", v, seccomp.FilterFlag(v).String())
	}
	for _, a := range []uint32{0, 0x80000000, 0x30000, 0x50000, 0x7ff00000, 0x7ffc0000, 0x7fff0000, 0x7fc00000, 1, 0x50001, 0x7fff0001, 0x7fffffff, 0x80000001, 0x8000ffff, 0x90000000, 0xffff0000, 0xffffffff} {
		fmt.Fprintf(h, "%d=%s;", a, seccomp.Action(a).String())
	}
	fmt.Printf("texts=%x\n", h.Sum(nil))

	// lookups
	h = sha256.New()
	// (the empty name means the build's own architecture and is printed separately)
	for _, name := range []string{"arm", "i386", "386", "x32", "X32", "x86_64", "amd64", "AMD64", "aarch64", "arm64", "ARM64", "X86_64", "I386", "Arm", "ppc64", "mips", "s390x", "riscv64"} {
		info, err := arch.GetInfo(name)
		if err != nil {
			fmt.Fprintf(h, "%s:unsupported;", name)
			continue
		}
		fmt.Fprintf(h, "%s:%s:%d:%d:", name, info.Name, uint32(info.ID), info.SeccompMask)
		names := make([]string, 0, len(info.SyscallNames))
		for n := range info.SyscallNames {
			names = append(names, n)
		}
		sort.Strings(names)
		for _, n := range names {
			fmt.Fprintf(h, "%s=%d,", n, info.SyscallNames[n])
		}
		nums := make([]int, 0, len(info.SyscallNumbers))
		for n := range info.SyscallNumbers {
			nums = append(nums, n)
		}
		sort.Ints(nums)
		for _, n := range nums {
			fmt.Fprintf(h, "%d=%s,", n, info.SyscallNumbers[n])
		}
	}
	fmt.Printf("lookups=%x\n", h.Sum(nil))
	if info, err := arch.GetInfo(""); err == nil {
		fmt.Printf("native=%s\n", info.Name)
	} else {
		fmt.Printf("native=unsupported\n")
	}
}
