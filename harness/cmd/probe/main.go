// probe is the target program of the sandbox check (C15): a separate program
// image that first creates a marker file, then issues the raw probe system
// calls of a job file and prints one JSON line per call. Every call is
// announced before it is issued.
package main

import (
	"encoding/json"
	"fmt"
	"os"
	"syscall"
)

type probe struct {
	Nr   uint32    `json:"nr"`
	Args [6]uint64 `json:"args"`
}

func main() {
	if m := os.Getenv("PROBE_MARKER"); m != "" {
		if err := os.WriteFile(m, []byte("ran\n"), 0o666); err != nil {
			fmt.Fprintln(os.Stderr, "marker:", err)
			os.Exit(3)
		}
	}
	var probes []probe
	if j := os.Getenv("PROBE_JOB"); j != "" {
		b, err := os.ReadFile(j)
		if err != nil {
			fmt.Fprintln(os.Stderr, "job:", err)
			os.Exit(3)
		}
		if err := json.Unmarshal(b, &probes); err != nil {
			fmt.Fprintln(os.Stderr, "job:", err)
			os.Exit(3)
		}
	}
	fmt.Printf("{\"ev\":\"start\",\"args\":%d}\n", len(os.Args)-1)
	for k, p := range probes {
		fmt.Printf("{\"ev\":\"begin\",\"k\":%d}\n", k)
		r, _, e := syscall.RawSyscall6(uintptr(p.Nr), uintptr(p.Args[0]), uintptr(p.Args[1]), uintptr(p.Args[2]), uintptr(p.Args[3]), uintptr(p.Args[4]), uintptr(p.Args[5]))
		fmt.Printf("{\"ev\":\"end\",\"k\":%d,\"ret\":%d,\"errno\":%d}\n", k, int64(int(r)), int(e))
	}
	fmt.Println("{\"ev\":\"done\"}")
}
