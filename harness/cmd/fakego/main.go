// fakego stands in for the `go` command on the profiler's PATH. It answers
// `go tool objdump <binary>` with the listing named by FAKEGO_LISTING and can be
// told, per run, to misbehave:
//
//	FAKEGO_MODE=ok                  write everything, exit 0
//	FAKEGO_MODE=block:N             write N bytes, then block until killed
//	FAKEGO_MODE=exit:N:CODE         write N bytes, then exit with CODE
//	FAKEGO_MODE=kill:N:SIG          write N bytes, then die from signal SIG
//	FAKEGO_MODE=okignore            write everything, ignore write errors and SIGXFSZ, exit 0 (what the real tool does)
//	FAKEGO_MODE=slow:N:MS           like slow:N with a pause of MS ms
//	FAKEGO_MODE=slow:N              write N bytes, pause 50 ms, write the rest, exit 0
//
// Every invocation is appended to FAKEGO_LOG (if set).
package main

import (
	"fmt"
	"os"
	"os/signal"
	"strconv"
	"strings"
	"syscall"
	"time"
)

func main() {
	if l := os.Getenv("FAKEGO_LOG"); l != "" {
		if f, err := os.OpenFile(l, os.O_APPEND|os.O_CREATE|os.O_WRONLY, 0o666); err == nil {
			fmt.Fprintf(f, "%s\n", strings.Join(os.Args[1:], " "))
			f.Close()
		}
	}
	if len(os.Args) < 4 || os.Args[1] != "tool" || os.Args[2] != "objdump" {
		fmt.Fprintln(os.Stderr, "fakego: unsupported invocation", os.Args[1:])
		os.Exit(2)
	}
	data, err := os.ReadFile(os.Getenv("FAKEGO_LISTING"))
	if err != nil {
		fmt.Fprintln(os.Stderr, "fakego:", err)
		os.Exit(2)
	}
	mode := strings.Split(os.Getenv("FAKEGO_MODE"), ":")
	n := len(data)
	if len(mode) > 1 {
		if v, err := strconv.Atoi(mode[1]); err == nil && v < n {
			n = v
		}
	}
	ignoreErrors := mode[0] == "okignore"
	if ignoreErrors {
		// like the real disassembler: write errors (disk full, file size limit) are not noticed, exit status 0
		signal.Ignore(syscall.SIGXFSZ, syscall.SIGPIPE)
	}
	write := func(b []byte) {
		for len(b) > 0 {
			chunk := b
			if len(chunk) > 512 {
				chunk = chunk[:512]
			}
			k, err := os.Stdout.Write(chunk)
			if err != nil {
				if ignoreErrors {
					return
				}
				os.Exit(4)
			}
			b = b[k:]
		}
	}
	switch mode[0] {
	case "block":
		write(data[:n])
		for {
			time.Sleep(time.Hour)
		}
	case "exit":
		write(data[:n])
		code := 1
		if len(mode) > 2 {
			code, _ = strconv.Atoi(mode[2])
		}
		os.Exit(code)
	case "kill":
		// the tool dies from a signal after N bytes (OOM killer, crash)
		write(data[:n])
		sig := 9
		if len(mode) > 2 {
			sig, _ = strconv.Atoi(mode[2])
		}
		syscall.Kill(os.Getpid(), syscall.Signal(sig))
		time.Sleep(time.Second)
		os.Exit(3)
	case "slow":
		write(data[:n])
		ms := 50
		if len(mode) > 2 {
			ms, _ = strconv.Atoi(mode[2])
		}
		time.Sleep(time.Duration(ms) * time.Millisecond)
		write(data[n:])
	default:
		write(data)
	}
}
