// racefirst is built with the race detector. It starts N goroutines behind a barrier; the very first use the process
// makes of the library happens in all of them at once (lazily initialised package state is only ever written on first
// use, so a check that warms the library up sequentially can never see such a race). What each goroutine does first is
// selected by the plan given on the command line. The race detector ends the process with exit code 66 on a report.
package main

import (
	"encoding/json"
	"fmt"
	"io"
	"os"
	"sync"

	seccomp "github.com/elastic/go-seccomp-bpf"
	"github.com/elastic/go-seccomp-bpf/arch"
)

type plan struct {
	Ops []string `json:"ops"` // one per goroutine: getinfo-native / getinfo-name / assemble-native / dump / action-text / flag-text / unpack
	K   int      `json:"k"`   // repetitions per goroutine
}

func policy() *seccomp.Policy {
	return &seccomp.Policy{DefaultAction: seccomp.ActionAllow, Syscalls: []seccomp.SyscallGroup{
		{Action: seccomp.ActionErrno, Names: []string{"getppid", "getuid"}},
		{Action: seccomp.ActionLog, NamesWithCondtions: []seccomp.NameWithConditions{{Name: "getgid", Conditions: seccomp.ArgumentConditions{{Argument: 1, Operation: seccomp.Equal, Value: 7}}}}},
	}}
}

func main() {
	var pl plan
	if len(os.Args) < 2 || json.Unmarshal([]byte(os.Args[1]), &pl) != nil {
		fmt.Println("usage: racefirst '<plan json>'")
		os.Exit(2)
	}
	if pl.K <= 0 {
		pl.K = 1
	}
	start := make(chan struct{})
	var wg sync.WaitGroup
	results := make([]string, len(pl.Ops))
	for i, op := range pl.Ops {
		wg.Add(1)
		go func(i int, op string) {
			defer wg.Done()
			defer func() {
				if x := recover(); x != nil {
					results[i] = fmt.Sprintf("panic: %v", x)
				}
			}()
			<-start
			for k := 0; k < pl.K; k++ {
				switch op {
				case "getinfo-native":
					info, err := arch.GetInfo("")
					if err == nil {
						results[i] = info.Name
					}
				case "getinfo-name":
					info, err := arch.GetInfo([]string{"amd64", "x86_64", "386", "arm64", "X32", "ppc64"}[(i+k)%6])
					if err == nil {
						results[i] = info.Name
					}
				case "assemble-native":
					insts, err := policy().Assemble()
					results[i] = fmt.Sprintf("%d %v", len(insts), err)
				case "dump":
					err := policy().Dump(io.Discard)
					results[i] = fmt.Sprint(err)
				case "action-text":
					results[i] = seccomp.Action(uint32(0x7fff0000)).String() + seccomp.Action(uint32(i)).String()
				case "flag-text":
					results[i] = seccomp.FilterFlag(uint32(i % 8)).String()
				case "unpack":
					// every goroutine parses the same names; "ok" or what went wrong (values are the kernel's constants)
					bad := ""
					for name, want := range map[string]uint32{"allow": 0x7fff0000, "ERRNO": 0x00050000, "Kill_Process": 0x80000000, "kill_thread": 0, "Trap": 0x00030000, "trace": 0x7ff00000, "LOG": 0x7ffc0000} {
						a := seccomp.Action(0xdeadbeef)
						if err := a.Unpack(name); err != nil || uint32(a) != want {
							bad += fmt.Sprintf("Action.Unpack(%q) = %#x, %v; ", name, uint32(a), err)
						}
					}
					var a seccomp.Action
					if err := a.Unpack("nope"); err == nil {
						bad += "Action.Unpack(\"nope\") accepted; "
					}
					for name, want := range map[string]seccomp.Operation{"Equal": seccomp.Equal, "bitsset": seccomp.BitsSet, "NOTEQUAL": seccomp.NotEqual} {
						var o seccomp.Operation
						if err := o.Unpack(name); err != nil || o != want {
							bad += fmt.Sprintf("Operation.Unpack(%q) = %q, %v; ", name, o, err)
						}
					}
					if bad == "" {
						bad = "ok"
					}
					if results[i] == "" || results[i] == "ok" {
						results[i] = bad
					}
				}
			}
		}(i, op)
	}
	close(start)
	wg.Wait()
	out, _ := json.Marshal(results)
	fmt.Println(string(out))
}
