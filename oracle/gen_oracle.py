#!/usr/bin/env python3
"""Generates /verif/oracle/oracle.json from sources that are independent of
/repo: the kernel UAPI headers of the image, Go's syscall package and
golang.org/x/sys/unix v0.48.0. Run once; the result is checked in and is what
the checks embed. (Re-running needs the same image.)"""
import re, os, json, subprocess, sys

GOROOT = subprocess.check_output(['go', 'env', 'GOROOT']).decode().strip()
XSYS = '/root/go/pkg/mod/golang.org/x/sys@v0.48.0/unix/'
INC = '/usr/include/'

def go_sys(path):
    t = {}
    for mm in re.finditer(r'^\s*SYS_(\w+)\s*=\s*(\d+)', open(path).read(), re.M):
        t[mm.group(1).lower()] = int(mm.group(2))
    return t

def hdr(path, bit=False):
    t = {}
    pat = r'^#define __NR_(\w+)\s+\(?(?:__X32_SYSCALL_BIT \+ )?(\d+)\)?\s*$'
    for mm in re.finditer(pat, open(path).read(), re.M):
        t[mm.group(1)] = int(mm.group(2))
    return t

def generic(path):
    """asm-generic/unistd.h as seen by a 64-bit architecture without
    __ARCH_WANT_* (arm64 defines __ARCH_WANT_RENAMEAT, NEW_STAT,
    SET_GET_RLIMIT, TIME32_SYSCALLS (no), SYS_CLONE3, MEMFD_SECRET): use cpp."""
    src = '#define __BITS_PER_LONG 64\n#define __ARCH_WANT_RENAMEAT\n#define __ARCH_WANT_NEW_STAT\n#define __ARCH_WANT_SET_GET_RLIMIT\n#define __ARCH_WANT_SYS_CLONE3\n#define __ARCH_WANT_MEMFD_SECRET\n#include <asm-generic/unistd.h>\n'
    out = subprocess.run(['gcc', '-E', '-dM', '-x', 'c', '-'], input=src.encode(), capture_output=True, check=True).stdout.decode()
    defs = {}
    for mm in re.finditer(r'^#define (__NR\w+)\s+(.+)$', out, re.M):
        defs[mm.group(1)] = mm.group(2).strip()
    def resolve(v, depth=0):
        v = v.strip()
        if re.fullmatch(r'\d+', v):
            return int(v)
        if v in defs and depth < 5:
            return resolve(defs[v], depth + 1)
        return None
    t = {}
    for k, v in defs.items():
        if not k.startswith('__NR_') or k.startswith('__NR3264_') or k in ('__NR_syscalls', '__NR_arch_specific_syscall'):
            continue
        n = resolve(v)
        if n is not None:
            t[k[len('__NR_'):]] = n
    return t

def audit():
    src = '#include <linux/audit.h>\n'
    out = subprocess.run(['gcc', '-E', '-dM', '-x', 'c', '-'], input=src.encode(), capture_output=True, check=True).stdout.decode()
    names = re.findall(r'^#define (AUDIT_ARCH_\w+)\s', out, re.M)
    prog = '#include <linux/audit.h>\n#include <stdio.h>\nint main(){\n' + ''.join('printf("%s %%u\\n", (unsigned)%s);\n' % (n, n) for n in names) + 'return 0;}\n'
    open('/tmp/_aud.c', 'w').write(prog)
    subprocess.check_call(['gcc', '-o', '/tmp/_aud', '/tmp/_aud.c'])
    res = {}
    for line in subprocess.check_output(['/tmp/_aud']).decode().splitlines():
        k, v = line.split()
        res[k] = int(v)
    os.remove('/tmp/_aud.c'); os.remove('/tmp/_aud')
    return res

def consts():
    names = ['SECCOMP_RET_KILL_PROCESS', 'SECCOMP_RET_KILL_THREAD', 'SECCOMP_RET_TRAP', 'SECCOMP_RET_ERRNO',
             'SECCOMP_RET_USER_NOTIF', 'SECCOMP_RET_TRACE', 'SECCOMP_RET_LOG', 'SECCOMP_RET_ALLOW',
             'SECCOMP_FILTER_FLAG_TSYNC', 'SECCOMP_FILTER_FLAG_LOG', 'SECCOMP_SET_MODE_STRICT', 'SECCOMP_SET_MODE_FILTER',
             'PR_SET_NO_NEW_PRIVS', 'EPERM', 'ENOSYS', '__X32_SYSCALL_BIT']
    prog = '#include <linux/seccomp.h>\n#include <linux/prctl.h>\n#include <errno.h>\n#include <asm/unistd.h>\n#include <stdio.h>\nint main(){\n' + ''.join('printf("%s %%u\\n", (unsigned)%s);\n' % (n, n) for n in names) + 'return 0;}\n'
    open('/tmp/_c.c', 'w').write(prog)
    subprocess.check_call(['gcc', '-o', '/tmp/_c', '/tmp/_c.c'])
    res = {}
    for line in subprocess.check_output(['/tmp/_c']).decode().splitlines():
        k, v = line.split()
        res[k] = int(v)
    os.remove('/tmp/_c.c'); os.remove('/tmp/_c')
    return res

ARM_PRIVATE = {'breakpoint': 0x0f0001, 'cacheflush': 0x0f0002, 'usr26': 0x0f0003, 'usr32': 0x0f0004, 'set_tls': 0x0f0005, 'get_tls': 0x0f0006}
tables = {
    'x86_64': {
        'kernel_uapi_6.1': hdr(INC + 'x86_64-linux-gnu/asm/unistd_64.h'),
        'go_syscall': go_sys(GOROOT + '/src/syscall/zsysnum_linux_amd64.go'),
        'x_sys_unix_0.48': go_sys(XSYS + 'zsysnum_linux_amd64.go'),
    },
    'i386': {
        'kernel_uapi_6.1': hdr(INC + 'x86_64-linux-gnu/asm/unistd_32.h'),
        'go_syscall': go_sys(GOROOT + '/src/syscall/zsysnum_linux_386.go'),
        'x_sys_unix_0.48': go_sys(XSYS + 'zsysnum_linux_386.go'),
    },
    'arm': {
        'go_syscall': go_sys(GOROOT + '/src/syscall/zsysnum_linux_arm.go'),
        'x_sys_unix_0.48': go_sys(XSYS + 'zsysnum_linux_arm.go'),
        # the ARM private calls: no header of this machine and neither Go table lists them; copied by hand from
        # arch/arm/include/uapi/asm/unistd.h (__ARM_NR_BASE = __NR_SYSCALL_BASE + 0x0f0000, EABI base 0)
        'kernel_arm_unistd_h_private_calls': ARM_PRIVATE,
    },
    'aarch64': {
        'kernel_uapi_6.1_generic': generic(INC + 'asm-generic/unistd.h'),
        'go_syscall': go_sys(GOROOT + '/src/syscall/zsysnum_linux_arm64.go'),
        'x_sys_unix_0.48': go_sys(XSYS + 'zsysnum_linux_arm64.go'),
    },
    'x32': {
        'kernel_uapi_6.1': hdr(INC + 'x86_64-linux-gnu/asm/unistd_x32.h'),
    },
}
out = {
    'comment': 'generated by gen_oracle.py from kernel UAPI headers (Linux 6.1), Go ' + subprocess.check_output(['go', 'version']).decode().split()[2] + ' syscall, x/sys v0.48.0; independent of /repo',
    'tables': tables,
    'audit_arch': audit(),
    'consts': consts(),
    # errno values for ENOSYS per Linux architecture family (literature values: mips uses 89)
    'enosys_by_goarch': {'mips': 89, 'mipsle': 89, 'mips64': 89, 'mips64le': 89, 'default': 38},
}
json.dump(out, open(os.path.join(os.path.dirname(os.path.abspath(__file__)), 'oracle.json'), 'w'), indent=0, sort_keys=True)
for a, ss in tables.items():
    print(a, {k: len(v) for k, v in ss.items()})
print(out['audit_arch']); print(out['consts'])
