"""Per-property configuration of the driver: which test functions decide the
property, with how many generated cases per tier, and the static part of the
evidence (level, rule for non-trivial cases, assumptions)."""

PROPS = {}

PROPS['C06'] = {
    'level': 'exploration',
    'rule': ('cases = label programs (2..1500 label-level instructions: loads, two-way conditional jumps with all 8 '
             'tests, returns; forward targets at distances 1, 2..8, 200..300, exactly skip 255/256, arbitrary) drawn by '
             'rapid and replayed as public builder calls; oracle = abstract label machine, observable-trace and return '
             'equality on one solved input per reachable branch of every jump plus 8 random inputs; evaluations = '
             'programs + inputs run; a case is non-trivial iff the assembled program is longer than the label program '
             '(>= 1 bridge) and at least one run went through a far jump or an inserted bridge; distinct by hash of '
             'the case JSON'),
    'assumptions': ['golang.org/x/net/bpf.Assemble encodes instructions faithfully (it is what LoadFilter uses)',
                    'independent interpreter internal/cbpf implements classic BPF semantics'],
    'required_classes': {'all': ['has-bridge', 'both-branches-far', 'far-nonreturn-target', 'skip-255', 'skip-256',
                                 'label-with-3+-far-jumps']},
    'units': [
        {'test': 'TestC06Labels', 'checks': {'quick': 1200, 'thorough': 48000}, 'shards': {'quick': 4, 'thorough': 16},
         'timeout': {'quick': 300, 'thorough': 3000}},
    ],
}
