"""Per-property configuration of the driver: which test functions decide the
property, with how many generated cases per tier, and the static part of the
evidence (level, rule for non-trivial cases, assumptions)."""

PROPS = {}

PROPS['C06'] = {
    'level': 'exploration',
    'rule': ('cases = label programs (2..1500 label-level instructions: loads, two-way conditional jumps with all 8 '
             'tests, returns; forward targets at distances 1, 2..8, 200..300, exactly skip 255/256, arbitrary) drawn by '
             'rapid and replayed as public builder calls; oracle = abstract label machine, observable-trace and return '
             'equality on one solved input per reachable branch of every jump plus 8 random inputs; evaluations = '
             'programs + inputs run; a case is non-trivial iff the assembled program is longer than the label program '
             '(>= 1 bridge) and at least one run went through a far jump or an inserted bridge; in 3/7 of the cases Assemble is called 2-3 times on the same Program and the last list is judged; '
             'unit policy-size (metamorphic, no model): a small policy and the same policy padded with 1..330 unrelated names (new group in front / at the end / into a group) must answer every own-architecture, '
             'foreign-architecture and x32 event alike; non-trivial iff the padding takes the program across 255 instructions; distinct by hash of '
             'the case JSON'),
    'assumptions': ['golang.org/x/net/bpf.Assemble encodes instructions faithfully (it is what LoadFilter uses)',
                    'independent interpreter internal/cbpf implements classic BPF semantics'],
    'required_classes': {'all': ['has-bridge', 'both-branches-far', 'far-nonreturn-target', 'skip-255', 'skip-256',
                                 'label-with-3+-far-jumps', 'assembled-more-than-once', 'target-beyond-instruction-65535', 'padding-crosses-255-instructions',
                                 'crossing-with-foreign-architecture-events', 'crossing-with-x32-events', 'crossing-with-errno-default']},
    'units': [
        {'test': 'TestC06Labels', 'checks': {'quick': 6400, 'thorough': 48000}, 'shards': {'quick': 16, 'thorough': 16},
         'timeout': {'quick': 300, 'thorough': 3000}},
        {'test': 'TestC06PolicySize', 'checks': {'quick': 4800, 'thorough': 400000}, 'shards': {'quick': 16, 'thorough': 16},
         'timeout': {'quick': 300, 'thorough': 3000}},
    ],
}

_COMPILER_ASSUMPTIONS = [
    'reference decision procedure internal/model (written from the property statements) is the specification',
    'name->number and all constants come from the vendored oracle (kernel UAPI 6.1 headers, Go syscall, x/sys v0.48.0), not from the library',
    'independent interpreter internal/cbpf implements classic BPF semantics on the raw encoding produced by x/net bpf.Assemble',
    'architectures other than the host are reached through the arch-setter hook and the host interpreter (no execution on foreign CPUs)',
]

PROPS['C01'] = {
    'level': 'exploration',
    'rule': ('cases = (policy, event-seed): policies drawn by rapid for x86_64/i386/arm/aarch64 (1..8 groups, name lists from 0 names '
             'to the whole table, overlapping between groups, some with conditional entries / empty groups); events are '
             'expanded deterministically per policy: every listed number (capped sample for huge lists, first/last always), '
             'neighbours +-1, constants the compiled program compares with and their neighbours, 0, 0x3fffffff, boundary values, '
             'numbers above every listed one, random; evaluations = policies + events; an event is non-trivial iff it is decided by '
             'group >= 2, or its number is listed by groups with different actions, or it is an unlisted boundary number, or the '
             'program is longer than 255 instructions; a case is non-trivial iff it has such an event; distinct by hash of the case JSON'),
    'assumptions': _COMPILER_ASSUMPTIONS,
    'required_classes': {'all': ['decided-by-group>=2', 'nr-listed-by-groups-with-different-actions',
                                 'default-for-nr-above-every-listed', 'errno-returned', 'program>255',
                                 'arch:x86_64', 'arch:i386', 'arch:arm', 'arch:aarch64', 'whole-table-group',
                                 'value-compiled-for-another-architecture-before']},
    'units': [
        {'test': 'TestC01Groups', 'checks': {'quick': 16000, 'thorough': 120000}, 'shards': {'quick': 16, 'thorough': 16},
         'timeout': {'quick': 300, 'thorough': 3000}},
    ],
}

PROPS['C03'] = {
    'level': 'exploration',
    'rule': ('cases = (policy, event-seed): policies with conditional entries followed by further entries and groups (several lists per '
             'syscall, 1..80 conditions per list, repeated argument indices, same syscall in several groups, interleaved entry order); '
             'events per conditional syscall are solved per list: all conditions true / all but the last / first false / a random one false, '
             'plus bait vectors whose argument words equal listed syscall numbers; evaluations = policies + events; an event is '
             'non-trivial iff it hits a conditional entry none of whose lists is satisfied (the fall-through is observable); distinct by hash of the case JSON'),
    'assumptions': _COMPILER_ASSUMPTIONS,
    'required_classes': {'all': ['conditional-entry-not-satisfied', 'fallthrough-then-decided-by-a-later-entry', 'fallthrough-to-default',
                                 'bait-argument-word-equals-a-listed-number', 'syscall-with>=2-lists', 'same-argument-twice-in-a-list',
                                 'conditional-syscall-in>=2-groups', 'OR:-earlier-list-failed-later-list-matched', 'program>255']},
    'units': [
        {'test': 'TestC03Conditions', 'checks': {'quick': 16000, 'thorough': 160000}, 'shards': {'quick': 16, 'thorough': 16},
         'timeout': {'quick': 300, 'thorough': 3000}},
    ],
}

PROPS['C04'] = {
    'level': 'exploration',
    'rule': ('cases = (policy, event-seed): policies of all profiles, in particular sizes around the 255/256 switch of the architecture jump; '
             'events: every other AUDIT_ARCH constant of the kernel header, the own id with single bits flipped, 0, 0xffffffff, random words, '
             'with nr/args chosen to match rules; on x86_64 numbers 0x40000000, 0x40000000|n, 0x80000000|n for listed n and x32-table numbers, '
             '0x7fffffff, 0x80000000, 0xffffffff and the negative control 0x3fffffff; an event is non-trivial iff the same nr/args with the '
             'own architecture (resp. without the x32 bits) would have received a different answer, or nr is a boundary value; distinct by hash of the case JSON'),
    'assumptions': _COMPILER_ASSUMPTIONS,
    'required_classes': {'all': ['foreign-event-that-would-match-a-rule', 'x32-event-whose-low-bits-match-a-rule', 'x32-boundary-nr',
                                 'negative-control-0x3fffffff', 'arch-jump:long-form', 'arch-jump:short-form',
                                 'arch-jump:long-form-with-conditional-policy', 'arch-jump-distance-class:255', 'arch-jump-distance-class:256']},
    'units': [
        {'test': 'TestC04Guards', 'checks': {'quick': 12000, 'thorough': 600000}, 'shards': {'quick': 16, 'thorough': 16},
         'timeout': {'quick': 300, 'thorough': 3000}},
    ],
}

PROPS['C02'] = {
    'level': 'exploration',
    'exhaustive': False,
    'rule': ('cases = (operation, argument index, operand, actual value, noise in the other five arguments, byte-order mode); '
             '(1) complete boundary grid: hi and lo halves of operand and actual over {0,1,0x7fffffff,0x80000000,0xfffffffe,0xffffffff,seeded} '
             '= 49x49 pairs x 8 operations x 6 indices x 3 byte-order modes (native = the order the package detected itself, little/big = '
             'override hook with seccomp_data encoded accordingly); (2) rapid-drawn pairs incl. v, v+-1, v xor 2^32, halves swapped, one bit flipped; '
             'oracle = Go uint64 relations; a case is non-trivial iff actual != operand and the two halves fall in different relation '
             'classes (<,=,>), or for the bit tests the overlap is in exactly one half; 1/4 of the rapid cases carry 1-3 alternative single-condition entries for the same syscall and argument (OR), with actual values whose high word equals an operand\'s low word; 1/3 place the entry among entries for other syscalls (before it, between it and its alternatives, plain names); distinct by hash of the case JSON'),
    'assumptions': _COMPILER_ASSUMPTIONS + ['big-endian layout is reached through the byte-order override hook on a little-endian host'],
    'required_classes': {'all': ['%s/arg%d/%s' % (op, a, o) for op in ('Equal', 'NotEqual', 'GreaterThan', 'LessThan', 'GreaterOrEqual', 'LessOrEqual', 'BitsSet', 'BitsNotSet')
                                 for a in range(6) for o in ('native', 'little', 'big')] +
                         ['halves-in-different-relation-classes', 'bits-overlap-in-exactly-one-half', 'alternative-entries-for-the-same-argument',
                          'entry-among-entries-for-other-syscalls', 'alternatives-not-adjacent']},
    'units': [
        {'test': 'TestC02Grid', 'shards': {'quick': 8, 'thorough': 8}, 'timeout': {'quick': 300, 'thorough': 600}},
        {'test': 'TestC02Random', 'checks': {'quick': 160000, 'thorough': 40000000}, 'shards': {'quick': 8, 'thorough': 16},
         'timeout': {'quick': 300, 'thorough': 3000}},
    ],
}

PROPS['C07'] = {
    'level': 'exploration',
    'rule': ('cases = a valid generated policy (all architectures, sizes far below 4096 instructions) with at most one injected defect at a '
             'rapid-drawn position: unknown default action, no groups (nil/empty), unknown name (hostile strings, wrong case, near misses, names '
             'valid only on another architecture) in names or in a conditional entry, duplicate name, syscall with and without conditions, '
             'argument index > 5, unimplemented operation (first/middle/last of a list), operation in another letter case; plus every '
             'architecture name of the package and GOARCH values through arch.GetInfo; the verdict is derived from the policy value by an '
             'independent judge written from the statement: defect => (nil, error), no panic; none => accepted; case-variant operations => '
             'rejected or behaving like the canonical operation; a case is non-trivial iff the defect is not at the very first position or the '
             'policy has >= 2 groups (valid cases: >= 2 groups and conditional entries); kind size-boundary: names-only policies aimed at 4090..4099 instructions, the sizes of the two next smaller policies are measured and extrapolated: a rejected policy that would fit 4096 is a violation; distinct by hash of the case JSON'),
    'assumptions': ['a name counts as unknown iff neither the library table nor the oracle table of the target architecture has it',
                    'all-empty-groups policies, zero-condition entries and undocumented group actions are outside the statement: both outcomes pass'],
    'required_classes': {'all': ['defect:unknown-default-action', 'defect:no-groups', 'defect:unknown-name', 'defect:duplicate-name',
                                 'defect:conditional-and-unconditional', 'defect:argument-index>5', 'defect:unimplemented-operation',
                                 'valid-policy', 'valid-with-empty-group', 'unknown-name:later-group', 'unknown-name-conditional:later-group',
                                 'unimplemented-operation:last-in-list', 'unimplemented-operation:middle-of-list', 'unimplemented-operation:first-in-list',
                                 'argument-index>5:later-group', 'operation-spelled-in-other-case', 'arch-lookup', 'size-boundary', 'size-accepted:4096', 'size-accepted:4095']},
    'units': [
        {'test': 'TestC07Validation', 'checks': {'quick': 48000, 'thorough': 600000}, 'shards': {'quick': 16, 'thorough': 16},
         'timeout': {'quick': 300, 'thorough': 3000}},
        {'test': 'TestC07Arch', 'timeout': {'quick': 120, 'thorough': 120}},
        {'test': 'TestC07SizeBoundary', 'checks': {'quick': 400, 'thorough': 40000}, 'shards': {'quick': 8, 'thorough': 16}, 'timeout': {'quick': 300, 'thorough': 1500}},
    ],
}

PROPS['C05'] = {
    'level': 'exploration',
    'rule': ('cases = (policy, byte-order mode, ask-kernel flag): policies of every profile on 4 architectures incl. only-empty groups, one name, '
             'whole table, 80-condition lists, sizes tuned to 4080..4096 instructions; every returned program must be non-empty, encode to raw form, '
             'pass a Go port of bpf_check_classic+seccomp_check_filter when <= 4096 instructions, contain only RET K with K in {default, group actions, '
             'ERRNO|ENOSYS on x86_64}; a sample (and every degenerate / near-4096 program) is installed on the running kernel by a throw-away child; '
             'second kind: the verifier port itself is compared with the kernel on single-field corruptions of emitted programs (disagreement => inconclusive); '
             'a program case is non-trivial iff some group is empty, or it is longer than 255, or it loads arguments; a differential case iff both reject; '
             '1/8 of the policies carry an injected defect (whatever is accepted must still be valid) and 1/6 are compiled on a Policy value that compiled another policy before and was overwritten field by field; distinct by hash of the case JSON'),
    'assumptions': ['verifier port agrees with the running kernel (6.18) - itself tested differentially in the same run',
                    'x/net bpf.Assemble is the raw encoder LoadFilter uses'],
    'required_classes': {'all': ['all-groups-empty-attempted', 'program-within-10-of-4096', 'accepted-by-running-kernel', 'kernel:program-within-10-of-4096',
                                 'kernel:all-groups-empty', 'has-empty-group', 'program>255', 'has-argument-loads', 'order:big', 'order:little', 'order:native',
                                 'diff:both-reject', 'diff:both-accept', 'whole-table-group']},
    'units': [
        {'test': 'TestC05Programs', 'checks': {'quick': 8000, 'thorough': 160000}, 'shards': {'quick': 16, 'thorough': 16},
         'helpers': ['kverify'], 'timeout': {'quick': 300, 'thorough': 3000}},
        {'test': 'TestC05VerifierPort', 'checks': {'quick': 640, 'thorough': 16000}, 'shards': {'quick': 16, 'thorough': 16},
         'helpers': ['kverify'], 'timeout': {'quick': 300, 'thorough': 3000}},
    ],
}

# ---- texts for MANIFEST.json (gen_manifest.py) ----
NOT_APPLICABLE = {}
MANIFEST_TEXT = {
    'C01': {'claim': 'no counterexample among rapid-generated policies x policy-directed event sets on all four table architectures; compiled program executed by an independent raw-cBPF interpreter and compared with a reference decision procedure; thorough adds complete 2^32 syscall-number sweeps for a few policies',
            'note': 'trusts the reference procedure, the vendored oracle tables/constants, the interpreter and x/net bpf.Assemble; foreign CPUs are not executed',
            'technique': 'property-based testing (rapid) against a reference model; partition-representative events; exhaustive nr sweep (thorough)'},
    'C02': {'claim': 'complete boundary grid (49x49 operand/actual pairs x 8 ops x 6 indices x 3 byte-order modes) plus rapid-drawn pairs, oracle = Go uint64 relations',
            'note': 'big-endian layout reached through the byte-order hook on a little-endian host; same trusted base as C01',
            'technique': 'exhaustive boundary-class enumeration + property-based testing (rapid)'},
    'C03': {'claim': 'no counterexample among generated policies with conditional entries followed by further entries/groups; events solved per condition list (all true / one false) and bait argument words equal to listed syscall numbers',
            'note': 'same trusted base as C01',
            'technique': 'property-based testing (rapid) against a reference model; constraint-solved events on fall-through paths'},
    'C04': {'claim': 'no counterexample among generated policies (sizes searched around the 255/256 switch of the architecture jump) x foreign architecture words x x32 numbers chosen to match rules',
            'note': 'same trusted base as C01; a genuinely foreign event on the real kernel is not produced',
            'technique': 'property-based testing (rapid) against a reference model; directed size search'},
    'C05': {'claim': 'every generated accepted policy yields a program that passes a port of the kernel verifier and has a closed return set; a sample incl. all degenerate and near-4096 programs is installed on the running kernel; the port is differentially validated against the kernel in the same run',
            'note': 'the verifier port is trusted only as far as its differential campaign against kernel 6.18 reaches',
            'technique': 'property-based testing (rapid) with validity predicate; differential testing against seccomp(2) in throw-away children'},
    'C06': {'claim': 'rapid-generated label programs replayed through the public builder; observable-trace equality against an abstract label machine on one solved input per reachable branch of every jump',
            'note': 'trusts x/net bpf.Assemble (raw encoding) and the harness interpreter; no absence claim beyond the generated programs',
            'technique': 'property-based testing (rapid), model-based oracle (label machine), edge-covering inputs; native fuzz target (thorough)'},
    'C07': {'claim': 'one defect of each class of the statement injected at generated positions of valid generated policies must give (nil, error) without panic; valid policies must be accepted; unknown operations never silently dropped',
            'note': 'verdict derived from the policy value by an independent judge written from the statement; error texts never inspected',
            'technique': 'property-based testing (rapid), fault injection into valid inputs, differential check for case-variant operations'},
}

PROPS['C13'] = {
    'level': 'exploration',
    'rule': ('kinds: history = (policy, other policies, k): compile the same value k times interleaved with other (also invalid) policies and an equal fresh value, '
             'programs must be identical and the exported fields plus every slice header (pointer/len/cap) of the policy unchanged; concurrent (race-detector build) = '
             '2..16 goroutines released on a barrier compile deep or shallow copies (sharing all slices) while doing arch lookups and text conversions, any race report '
             'fails; text = FilterFlag/Action text forms of 0..15 and random values repeated 64 times; processes = 6..12 fresh processes compile the same seeded corpus '
             'and print digests; a case is non-trivial iff the policy has >= 2 same-name conditional entries (merge path), or copies share slices, or the flag has >= 2 '
             'known bits, or it is a cross-process round; history cases may modify the value in place between compilations, re-target it to another architecture or share its group slice with a policy for another architecture (must equal a fresh equal value); unit text-processes compares the text forms of 64/400 fresh processes; distinct by hash of the case JSON'),
    'assumptions': ['schedules are sampled (barrier start, 2..16 goroutines), not enumerated', 'the Go race detector reports the races that occur in the sampled schedules',
                    '"caller\'s policy" = exported fields and slice headers; the unexported arch cache may be filled in'],
    'required_classes': {'all': ['same-name-entries-merged', 'interleaved-with-other-policies', 'shared-slices', 'concurrent', 'text', 'processes', 'text-forms-across-processes', 'modified-between-compilations:default', 'modified-between-compilations:group-action',
                                 'modified-between-compilations:retarget-other-architecture', 'modified-between-compilations:share-groups-other-architecture',
                                 'caller-slices-share-one-backing-array', 'first-use-concurrent']},
    'units': [
        {'test': 'TestC13History', 'checks': {'quick': 8000, 'thorough': 400000}, 'shards': {'quick': 8, 'thorough': 16}, 'timeout': {'quick': 300, 'thorough': 3000}},
        {'test': 'TestC13FirstUse', 'checks': {'quick': 480, 'thorough': 24000}, 'shards': {'quick': 8, 'thorough': 16}, 'helpers': [{'name': 'racefirst', 'race': True, 'env': 'racefirst'}], 'timeout': {'quick': 300, 'thorough': 1500}},
        {'test': 'TestC13Concurrent', 'race': True, 'checks': {'quick': 1200, 'thorough': 60000}, 'shards': {'quick': 6, 'thorough': 8},
         'env': {'GORACE': 'halt_on_error=1'}, 'timeout': {'quick': 400, 'thorough': 3000}},
        {'test': 'TestC13Text', 'checks': {'quick': 2000, 'thorough': 50000}, 'timeout': {'quick': 120, 'thorough': 600}},
        {'test': 'TestC13Processes', 'helpers': ['digest'], 'timeout': {'quick': 300, 'thorough': 1200}},
        {'test': 'TestC13TextProcesses', 'helpers': ['digest', {'name': 'digest', 'goarch': '386'}], 'timeout': {'quick': 300, 'thorough': 1200}},
    ],
}
MANIFEST_TEXT['C13'] = {'claim': 'repeated/interleaved compilations give identical programs and leave the policy (exported fields and slice headers) untouched; concurrent compilations of deep and slice-sharing copies under the race detector; text forms stable; digests of a seeded corpus identical across fresh processes',
                        'note': 'schedules are sampled, not enumerated; race freedom is as far as the race detector sees the sampled runs',
                        'technique': 'property-based testing (rapid) with metamorphic/idempotence oracles; race-detector build; cross-process differential'}

PROPS['C14'] = {
    'level': 'exploration',
    'rule': ('kinds: parse = strings offered to Action.Unpack / Operation.Unpack: every documented name in all ASCII case patterns (exhaustive, <= 4096 per name), '
             'near-miss edits, printed forms, arbitrary and unicode look-alike strings; accepted iff the ASCII-lowercased input is a documented name, value == vendored constant, '
             'printed form parses back; config = generated policies (x86_64 host table, all actions/operations, indices 0..5, operands incl. >= 2^63) rendered by a '
             'harness-side config writer with generated spelling, or marshalled with yaml.Marshal / json.Marshal, loaded exactly as cmd/sandbox does (go-ucfg yaml + Unpack) '
             'and compiled: program must be identical to the literal policy\'s; non-trivial: parse input differs from the canonical spelling or is unknown; config policy has '
             'an index != 0, an operand >= 2^32 or an action other than allow/errno; distinct by hash of the case JSON'),
    'assumptions': ['the documented configuration dialect is the one of cmd/sandbox/seccomp.yml (keys default_action, syscalls, action, names, names_with_args, name, arguments, argument, operation, value)',
                    'non-ASCII strings that case-fold onto a documented name are outside the statement (no claim)',
                    'go-ucfg\'s JSON front end is not the documented path and is not asserted'],
    'required_classes': {'all': ['cfg:writer', 'cfg:yaml-marshal', 'cfg:json-marshal', 'cfg-index-5', 'cfg-operand-2^64-1', 'cfg-operand>=2^63',
                                 'parse:non-canonical-case', 'parse:unknown-name', 'parse:action', 'parse:operation'] +
                         ['cfg-action:' + a for a in ('kill_thread', 'kill_process', 'trap', 'errno', 'trace', 'log', 'allow')] +
                         ['cfg-op:' + o for o in ('Equal', 'NotEqual', 'GreaterThan', 'LessThan', 'GreaterOrEqual', 'LessOrEqual', 'BitsSet', 'BitsNotSet')]},
    'units': [
        {'test': 'TestC14Parsers', 'checks': {'quick': 20000, 'thorough': 4000000}, 'shards': {'quick': 2, 'thorough': 16}, 'timeout': {'quick': 300, 'thorough': 3000}},
        {'test': 'TestC14ParserNamesExhaustive', 'timeout': {'quick': 300, 'thorough': 300}},
        {'test': 'TestC14ParserDictionary', 'timeout': {'quick': 300, 'thorough': 300}},
        {'test': 'TestC14Config', 'checks': {'quick': 8000, 'thorough': 600000}, 'shards': {'quick': 16, 'thorough': 16}, 'timeout': {'quick': 300, 'thorough': 3000}},
    ],
}
MANIFEST_TEXT['C14'] = {'claim': 'parsers accept exactly the documented names in any ASCII case and return the vendored constants; generated policies rendered to the documented YAML dialect with generated spelling, or marshalled to YAML/JSON, and loaded as the sandbox command does compile to the identical program',
                        'note': 'trusts go-ucfg and yaml.v2 as the documented loading path; host architecture only (the loader cannot select another table)',
                        'technique': 'property-based testing (rapid): parser oracle from the vendored name table, round-trip / differential compilation oracle; exhaustive case patterns'}

PROPS['C12'] = {
    'level': 'exploration',
    'exhaustive': True,
    'rule': ('exhaustive part: every (number -> name) and (name -> number) pair of the five tables: mutual inverse laws, equal sizes, agreement with every oracle source that '
             'lists the name / the number (kernel UAPI 6.1 headers, Go syscall, x/sys v0.48.0; one documented alias set on aarch64); audit ids of all 16 Info values against linux/audit.h; '
             'every alias and every table-less architecture name in lower and upper case; generated part (rapid): random ASCII case patterns of every alias, near-miss and arbitrary '
             'names; k fresh processes must print the same digest over every lookup; an entry is non-trivial iff at least one oracle source lists it; an alias spelling iff it is not '
             'the canonical one; unit history: 1..6 uses of the public API per case (syscall extraction from generated listings that contain numbers the tables do not know, compilation of valid '
             'and invalid policies incl. Dump, GetInfo, text conversions), after every step all five tables must equal the copy taken at process start and still be mutual inverses; distinct by hash of the case JSON'),
    'assumptions': ['oracle tables are from Linux 6.1 headers / Go 1.23.5 syscall / x/sys v0.48.0: entries newer than all three are only checked for the inverse laws',
                    'unicode strings that case-fold onto an alias are outside the statement'],
    'required_classes': {'all': ['table:x86_64', 'table:i386', 'table:arm', 'table:aarch64', 'table:x32', 'by-name', 'by-number',
                                 'alias-in-non-canonical-case', 'unsupported-or-unknown', 'lookups-across-processes', 'alias:x32', 'alias:amd64', 'alias:arm64', 'alias:386', 'cross-table-law:x32-common', 'cross-table-law:unified', 'history-with-syscall-numbers-unknown-to-the-table']},
    'units': [
        {'test': 'TestC12Tables', 'timeout': {'quick': 300, 'thorough': 300}},
        {'test': 'TestC12CrossTable', 'timeout': {'quick': 300, 'thorough': 300}},
        {'test': 'TestC12ArchMetadata', 'checks': {'quick': 5000, 'thorough': 2000000}, 'timeout': {'quick': 300, 'thorough': 1200}},
        {'test': 'TestC12Processes', 'helpers': ['digest', {'name': 'digest', 'goarch': '386'}], 'timeout': {'quick': 300, 'thorough': 600}},
        {'test': 'TestC12TablesStable', 'checks': {'quick': 3000, 'thorough': 400000}, 'shards': {'quick': 8, 'thorough': 16}, 'timeout': {'quick': 300, 'thorough': 1500}},
    ],
}
MANIFEST_TEXT['C12'] = {'claim': 'complete enumeration of all five tables (inverse laws, agreement with three independent vendored sources, audit ids) plus generated alias spellings and cross-process lookup digests',
                        'note': 'independent sources are Linux 6.1 UAPI headers (x86, asm-generic), Go syscall and x/sys v0.48.0; newer entries are checked for consistency only',
                        'technique': 'exhaustive enumeration against vendored oracle tables + property-based testing (rapid) for spellings + cross-process differential'}

PROPS['C19'] = {
    'level': 'exploration',
    'exhaustive': True,
    'rule': ('complete enumeration of the GOOS/GOARCH pairs of `go tool dist list`: for every pair on which the library builds, an assertion package that only compiles when each '
             'exposed/aliased constant (8 actions, 2 filter flags, EPERM, ENOSYS, PR_SET_NO_NEW_PRIVS, 2 seccomp modes, x32 bit) equals the vendored UAPI value is built under that '
             'target\'s build context (ENOSYS: 89 on linux/mips*, 38 elsewhere); arch.GetInfo(GOARCH) - the call Assemble makes on such a host - must fail exactly for the GOARCH values '
             'without tables; transplant kind: the non-Linux source files are compiled for the host with their build constraints neutralised and run: generated policies must compile to '
             'byte-identical programs with both constant sets, Supported() false, LoadFilter/SetNoNewPrivs change no process state and issue no seccomp/prctl system call (strace); '
             'a target is non-trivial iff it is not linux/amd64; a transplant policy iff it contains an errno action or is for x86_64; unit arch-digest: the same 200/2000 policies compiled by a linux/386 and a linux/amd64 build give the same programs; the transplant run is traced completely: no system call between two markers on the thread calling the stubs; distinct by hash of the case JSON'),
    'assumptions': ['non-Linux and non-x86 code is compiled for its target but executed only on the host (source transplant); a miscompilation by another back end is out of reach',
                    'MIPS errno value (ENOSYS=89) is a literature value: the image only ships x86 and asm-generic headers'],
    'required_classes': {'all': ['target', 'non-linux-target', 'linux-mips-errno-table', 'goarch-without-tables', 'goarch-with-tables', 'transplant', 'transplant-under-strace', 'no-system-call-between-markers', 'same-programs-from-386-and-amd64-builds']},
    'units': [
        {'test': 'TestC19CrossBuild', 'timeout': {'quick': 900, 'thorough': 900}},
        {'test': 'TestC19Transplant', 'timeout': {'quick': 600, 'thorough': 900}},
        {'test': 'TestC19ArchDigest', 'helpers': ['digest', {'name': 'digest', 'goarch': '386'}], 'timeout': {'quick': 300, 'thorough': 900}},
        {'test': 'TestC19JsWasm', 'timeout': {'quick': 600, 'thorough': 900}},
        {'test': 'TestC19NativeOverlay', 'timeout': {'quick': 600, 'thorough': 900}},
    ],
}
MANIFEST_TEXT['C19'] = {'claim': 'compile-time constant assertions built under every GOOS/GOARCH pair of the toolchain (complete enumeration); unsupported-architecture behaviour for every GOARCH without tables; non-Linux stub sources transplanted to the host and executed against generated policies',
                        'note': 'compiler-decided equality per build context; stubs executed on the host only',
                        'technique': 'exhaustive configuration enumeration with compile-time assertions + differential property test (rapid) on transplanted sources'}

_KCHILD = ['kchild', {'name': 'kchild', 'goarch': '386'}]
_KERNEL_ASSUMPTIONS = ['running kernel 6.18 with seccomp filter, TSYNC and CONFIG_IA32_EMULATION; checks run as root',
                       'probe syscalls getppid/getuid/geteuid/getgid/getegid/getpgrp ignore their argument registers and are not used by the Go runtime',
                       'all kernel interaction happens in throw-away child processes built from /repo with the hooks on; a child timeout is inconclusive']

PROPS['C08'] = {
    'level': 'exploration',
    'rule': ('cases = (ABI amd64|386, probe policy, no_new_privs, flags 0..3, probe events, strace flag, prior: in 1/6 the second thread first installs a filter of its own, so that a thread-sync load is refused - nil is then only acceptable if the policy is in force): policies decide only about six harmless probe syscalls (names, conditions on all six arguments, '
             '1..4 groups, optionally an allow group over the whole table => long programs, default allow/errno/kill_process/log/trace); one fresh child per case installs it with LoadFilter and '
             'issues 20..60 raw probe calls with arbitrary register values from the loading thread and from a second thread; oracle: reference decision -> observed result (normal value / EPERM / '
             'ENOSYS for trace / SIGSYS death exactly at the first kill_process probe); the sock_fprog captured immediately before seccomp(2) must equal the independently compiled program '
             '(length and every instruction) and flags; 10% of the cases additionally under strace; a case is non-trivial iff an argument condition yields different outcomes for two probes of the same '
             'syscall, or the program is longer than 255, or the deciding group is >= 2, or a kill occurs; distinct by hash of the case JSON'),
    'assumptions': _KERNEL_ASSUMPTIONS + ['trap / kill_thread / user_notif are decided by the interpreter checks only'],
    'required_classes': {'all': ['abi:amd64', 'abi:386', 'flag:0', 'flag:1', 'flag:2', 'flag:3', 'program>255', 'decided-by-group>=2',
                                 'argument-condition-outcome-differs-between-probes', 'killed-by-SIGSYS-at-the-expected-probe', 'probe-denied-EPERM',
                                 'probe-trace-ENOSYS', 'probe-allowed', 'strace-cross-check', 'second-thread-carries-a-divergent-filter', 'thread-sync-refused-and-reported']},
    'units': [
        {'test': 'TestC08Kernel', 'checks': {'quick': 960, 'thorough': 100000}, 'shards': {'quick': 16, 'thorough': 16}, 'helpers': _KCHILD,
         'timeout': {'quick': 400, 'thorough': 3300}},
    ],
}
MANIFEST_TEXT['C08'] = {'claim': 'generated probe policies installed by LoadFilter in one fresh child each (amd64 and i386 ABI); every probe call observed on the running kernel is compared with the reference decision; installed program == compiled program at the syscall wrapper, sampled strace cross-check',
                        'note': 'real kernel 6.18 as ground truth; only six harmless syscalls are ever denied',
                        'technique': 'property-based testing (rapid) with a reference model, differential against the running kernel in throw-away children'}

PROPS['C09'] = {
    'level': 'fault_enumeration',
    'rule': ('cases = histories of 2..12 operations executed by one fresh child each on 1..6 locked OS threads (plus the runtime\'s own), as root or as uid 65534: load(thread, no_new_privs, '
             'flags in {0,tsync,log,tsync|log,tsync|tsync_esrch,0x80,0xfffffffe}, policy kind in {valid over the probes, unknown name, argument index 6, no groups, oversize > 4096 instructions}) and '
             'supported(thread); generation is biased towards refusals (thread-sync from a thread while another carries its own filter; unprivileged loads without no_new_privs); after every '
             'operation every thread issues the six probes and all Seccomp / Seccomp_filters / NoNewPrivs fields are read; invariants: nil => one more filter on the caller with the policy\'s '
             'decisions in force, and with thread-sync every thread equal to the caller; not attached => non-nil and nothing changed except the caller\'s no_new_privs when requested; '
             'pre-kernel failure => error, no seccomp(2) call, no field changed; Supported() true and changes nothing; a history is non-trivial iff a refused or failed load is followed by a further step; '
             'one operation may inject the fault \'seccomp(2) answers ENOSYS\' into every command thread; policies that deny nothing (allow-only, log-only) are loaded too; '
             'nested-load = while a load is between its preparation and the installation (schedule-point hook) a complete load of a different policy runs on another thread: each thread must end up under its own policy; distinct by hash of the case JSON'),
    'assumptions': _KERNEL_ASSUMPTIONS + ['fault kinds are the kernel\'s own refusal modes, provoked by crafted process states; they are enumerated by class, not by injection'],
    'required_classes': {'all': ['not-attached:EINVAL-oversize-program', 'not-attached:EINVAL-unknown-flag-bits', 'not-attached:EACCES-no-privilege', 'not-attached:thread-sync-refused', 'not-attached:ENOSYS-seccomp-unavailable',
                                 'pre-kernel-failure-with-nnp-requested', 'supported-probe', 'supported-after-a-load', 'attached', 'thread-sync-attached', 'uid:0', 'uid:65534',
                                 'attached:policy-that-denies-nothing', 'overlapping-loads:interrupted-attached', 'overlapping-loads:interrupting-attached']},
    'units': [
        {'test': 'TestC09Histories', 'checks': {'quick': 640, 'thorough': 60000}, 'shards': {'quick': 16, 'thorough': 16}, 'helpers': _KCHILD,
         'timeout': {'quick': 400, 'thorough': 3300}},
    ],
}
MANIFEST_TEXT['C09'] = {'claim': 'generated load histories on several OS threads with every kernel refusal mode (EINVAL oversize / unknown flag bits, EACCES, refused thread-sync reported as a positive return value) and pre-kernel failures; invariants over per-thread /proc status and probe vectors after every step',
                        'note': 'real kernel as ground truth; refusal modes are provoked through process state, each in its own child',
                        'technique': 'property-based testing (rapid) of operation histories with invariants checked after every step; fault classes enumerated'}

PROPS['C10'] = {
    'level': 'exploration',
    'rule': ('cases = thread plans for one fresh child each: N in 1..64 pre-existing locked OS threads, each in a generated state while the load runs (spinning, in nanosleep, blocked in read(2) on a pipe, '
             'in a futex wait, creating and destroying threads), GOMAXPROCS in {1,2,4,16}, a delay before the load, flags 0..3, no_new_privs; after LoadFilter returned the loader releases the threads; every '
             'thread then issues a probe and reads its own status, threads created afterwards do the same; oracle: thread-sync + nil => every pre-existing, every later and every runtime thread has Seccomp 2 and '
             'its probe is denied; no thread-sync => loader filtered, every pre-existing thread untouched; flags word at the syscall wrapper (and under strace for 10%) == requested; a plan is non-trivial iff '
             'N >= 2, at least two different states are present and at least one thread was inside a system call; 1/4 of the plans carry a fault: another (or the same) thread loaded a filter without thread-sync before (same or different policy), or seccomp(2) answers ENOSYS in the whole process; distinct by hash of the case JSON'),
    'assumptions': _KERNEL_ASSUMPTIONS + ['schedules are sampled by perturbation (thread states, GOMAXPROCS, delays), not enumerated: the harness does not own the kernel scheduler'],
    'required_classes': {'all': ['flag:0', 'flag:1', 'flag:2', 'flag:3', 'state:spin', 'state:nanosleep', 'state:read', 'state:futex', 'state:spawner', 'thread-created-after-load',
                                 'threads>=25', 'strace-flags-word', 'fault:seccomp-ENOSYS', 'fault:another-thread-carries-its-own-filter',
                                 'policy-with-log-action', 'load-without-thread-sync-after-one-with'],
                         'thorough': ['threads:64']},
    'units': [
        {'test': 'TestC10ThreadSync', 'checks': {'quick': 400, 'thorough': 32000}, 'shards': {'quick': 16, 'thorough': 16}, 'helpers': _KCHILD,
         'timeout': {'quick': 500, 'thorough': 3300}},
    ],
}
MANIFEST_TEXT['C10'] = {'claim': 'generated thread populations (1..64 threads in five kinds of state, several GOMAXPROCS values and delays) around one LoadFilter call per fresh child; behavioural check on every thread after the load returned plus the flags word at the syscall boundary',
                        'note': 'interleavings are sampled by perturbation, not enumerated; the invariant is checked on every thread of every sampled run',
                        'technique': 'property-based testing (rapid) over schedule perturbations with a per-thread invariant; strace cross-check of the flags word'}

PROPS['C11'] = {
    'level': 'exploration',
    'rule': ('cases = {uid 0, uid 65534} x no_new_privs x flags 0..3 x a perturbation executed inside the schedule point between the prctl and the seccomp call (Gosched xk, sleep, blocking system calls) '
             'with 0..32 spinning goroutines and GOMAXPROCS in {1,2,4}, caller unlocked or already locked to its thread, one fresh child each; hooks record thread id and no_new_privs at the schedule point and '
             'immediately before seccomp(2); a control goroutine performs the same perturbation unpinned and reports whether it migrated; oracle: requested => load returns nil (also unprivileged), bit set on the '
             'installing thread at install time, same thread as the prctl; not requested => no thread\'s bit changes, unprivileged load fails and installs nothing, privileged load succeeds; strace (10%): '
             'prctl then seccomp with the same tid; a case is non-trivial iff unprivileged, requested and the control goroutine migrated under the same perturbation; 1/4 of the cases are histories with 1-2 earlier no_new_privs loads on other pre-existing threads; 1/4 give the calling thread itself a past (as root a filter without the bit; a filter with the bit; or an enclosing filter that answers EPERM to prctl(PR_SET_NO_NEW_PRIVS), in which case a requested bit cannot be set and nothing may be installed); distinct by hash of the case JSON'),
    'assumptions': _KERNEL_ASSUMPTIONS + ['the decisive goroutine schedule is forced through the schedule-point hook; other schedules are not enumerated'],
    'required_classes': {'all': ['uid:%d/nnp:%s' % (u, n) for u in (0, 65534) for n in ('true', 'false')] +
                         ['unprivileged+nnp+migrating-perturbation', 'unprivileged-load-refused', 'control-goroutine-migrated', 'strace-order-and-thread', 'after-loads-on-other-threads',
                          'calling-thread:prior-no-nnp/nnp:true', 'calling-thread:prior-nnp/nnp:false', 'calling-thread:prctl-denied/nnp:true']},
    'units': [
        {'test': 'TestC11NoNewPrivs', 'checks': {'quick': 960, 'thorough': 64000}, 'shards': {'quick': 16, 'thorough': 16}, 'helpers': _KCHILD,
         'timeout': {'quick': 500, 'thorough': 3300}},
    ],
}
MANIFEST_TEXT['C11'] = {'claim': 'privileged/unprivileged x requested/not x flags x generated perturbations forced at a schedule point between prctl and seccomp; the installing thread must carry the bit at install time and be the thread that set it; unprivileged loads with the bit requested must always succeed',
                        'note': 'the migration-inducing schedule is forced through the hook and its strength measured on a control goroutine in the same child',
                        'technique': 'property-based testing (rapid) with schedule-point fault injection; strace cross-check of call order and thread'}

_SANDBOX = [{'name': 'sandbox', 'from_repo': 'github.com/elastic/go-seccomp-bpf/cmd/sandbox', 'tags': ''}, 'probe',
            {'name': 'sandbox', 'from_repo': 'github.com/elastic/go-seccomp-bpf/cmd/sandbox', 'tags': '', 'goarch': '386'}, {'name': 'probe', 'goarch': '386'}]

PROPS['C15'] = {
    'level': 'exploration',
    'rule': ('cases = (probe policy, spelling seed, defect kind or none, position, no-new-privs flag, uid 0|65534, probe events): the policy is rendered to a YAML file by the harness config writer; '
             'defects: file missing, empty, binary garbage, YAML syntax error at a generated line, scalar where a list is expected, unknown syscall (names / conditional entry) / action / default action / operation at a '
             'generated position, no seccomp key, empty syscalls, argument index 6, a program the kernel refuses (> 4096 instructions), unprivileged without no_new_privs; the built sandbox command is run on a separate '
             'probe program that first creates a marker file, then issues generated raw probe calls; oracle: invalid => exit status != 0 and no marker; valid => marker exists and every probe result equals the '
             'reference decision (kill_process => the target dies exactly at that probe and the sandbox exits != 0); non-trivial: invalid file whose defect is at a generated (non-first) position, or a valid '
             'policy under which the target sees both denied and allowed probes, or a kill; additional kinds: names_with_args entries without arguments (refused, or applied to every call - never silently dropped) and valid policies that deny execve (the target must not run); distinct by hash of the case JSON'),
    'assumptions': _KERNEL_ASSUMPTIONS + ['the sandbox command is tested as a built binary from the outside (no hooks)'],
    'required_classes': {'all': ['invalid:' + d for d in ('missing-file', 'empty-file', 'yaml-syntax', 'wrong-type', 'unknown-syscall', 'unknown-syscall-conditional', 'unknown-action',
                                                          'unknown-default-action', 'unknown-operation', 'no-seccomp-key', 'empty-syscalls', 'argument-index-6', 'oversize-program',
                                                          'unprivileged-without-nnp', 'binary-garbage', 'entry-without-arguments', 'entry-with-empty-arguments')] +
                         ['valid', 'target-sees-denied-and-allowed-probes', 'target-killed-at-the-expected-probe', 'uid:65534', 'nnp:false', 'valid-policy-that-denies-execve']},
    'units': [
        {'test': 'TestC15Sandbox', 'checks': {'quick': 800, 'thorough': 80000}, 'shards': {'quick': 16, 'thorough': 16}, 'helpers': _SANDBOX,
         'timeout': {'quick': 500, 'thorough': 3300}},
    ],
}
MANIFEST_TEXT['C15'] = {'claim': 'generated policy files (valid and invalid in 15 ways at generated positions) x flags x uid against the built sandbox binary with a separate probe program as target; marker file and per-probe results compared with the reference decision',
                        'note': 'black-box test of the built command on the running kernel',
                        'technique': 'property-based testing (rapid) with fault injection into configuration files; reference-model oracle observed from a separate program image'}

PROPS['C16'] = {
    'level': 'exploration',
    'rule': ('cases by kind: model = listings rendered from a site model (1..8 functions incl. the syscall wrapper functions themselves; raw sites MOVx $n, AX|BP .. SYSCALL / INT $0x80 / SYSENTER, wrapper calls MOVQ $n, 0(SP) .. CALL '
             'syscall.Syscall6(SB) etc., the XORL AX, AX case, sites without a number load of their own directly behind a function ending in a number load (scope bait), loads without site, non-numeric operands; numbers in hex/decimal, '
             'inside and outside the table), both parsers; text = arbitrary lines incl. bare TEXT, trigger words with < 3 fields, NUL bytes, invalid UTF-8, CR-LF; overlong = a line of 64 KiB..192 KiB at the first / a middle / the last position; '
             'truncate = a model listing cut at a generated byte; unreadable = directory, /proc/self/mem, missing file; oracle: never panics; unreadable => error; overlong => error, or the result equals the result of the parts before and after '
             '(really read to the end); every result has Name == table[Num]; a result\'s number must be loaded by an instruction of the function it is attributed to; canonical sites (load directly followed by the trigger) are found; '
             'function-concatenation law Extract(F1++F2) == Extract(F1)++Extract(F2) at every split point; a case is non-trivial iff it has >= 2 functions and >= 1 reported site, or is of kind text/overlong/unreadable/a real truncation; '
             'symbols with blanks as printed for generic shapes, numbers with one of bits 20..31 set; unit sequence: a main text (2/3 of them start inside a function: no TEXT line before a bare site) is extracted, then another text '
             '(for the same or the other parser, often ending inside a function with a dangling number load), then the main text twice more: the three results must be equal (extraction is a function of the text alone); distinct by hash of the case JSON'),
    'assumptions': ['the site model is written from the documented instruction shapes; only containment (possible numbers per function) and canonical sites are asserted, never equality with a reference parser'],
    'required_classes': {'all': ['kind:model', 'kind:text', 'kind:overlong', 'kind:truncate', 'kind:unreadable', 'scope-bait', 'item:raw', 'item:wrapper', 'item:xor', 'item:bare', 'item:load-only',
                                 'overlong-line:first', 'overlong-line:middle', 'overlong-line:last', 'TEXT-only-line', 'trigger-line-with-fewer-than-3-fields', 'parser:i386', 'parser:x86_64',
                                 'trigger-inside-a-wrapper-function', 'unreadable:<dir>', 'unreadable:/proc/self/mem', 'unsupported-parser-arch',
                                 'kind:sequence', 'main-text-starts-inside-a-function', 'earlier-text-ends-inside-a-function', 'earlier-text-for-the-same-parser']},
    'units': [
        {'test': 'TestC16Extraction', 'checks': {'quick': 24000, 'thorough': 240000}, 'shards': {'quick': 16, 'thorough': 16}, 'timeout': {'quick': 300, 'thorough': 3000}},
        {'test': 'TestC16UnsupportedArch', 'timeout': {'quick': 60, 'thorough': 60}},
        {'test': 'TestC16Sequences', 'checks': {'quick': 3200, 'thorough': 160000}, 'shards': {'quick': 16, 'thorough': 16}, 'timeout': {'quick': 300, 'thorough': 3000}},
    ],
}
MANIFEST_TEXT['C16'] = {'claim': 'generated listings from a site model, hostile text, overlong lines at every position class, truncations and unreadable paths against both parsers; no panic, error instead of partial result, function scoping, table membership and the function-concatenation law',
                        'note': 'in-process calls of disasm.ExtractSyscalls on temporary files; read failures are provoked through the file system (directory, /proc/self/mem, scanner limit)',
                        'technique': 'property-based testing (rapid) with metamorphic oracle (concatenation law) and containment against a site model; native fuzz target (thorough)'}

_PROFILER = [{'name': 'seccomp-profiler', 'from_repo': 'github.com/elastic/go-seccomp-bpf/cmd/seccomp-profiler', 'tags': ''}, 'fakego', 'hello',
             {'name': 'hello', 'goarch': '386'}, {'name': 'hellodyn', 'cgo': True, 'env': 'hello_dyn'}]

PROPS['C17'] = {
    'level': 'fault_enumeration',
    'rule': ('cases = histories against the built profiler with a fake `go` tool first on PATH and a private HOME (uid 60001): 1..4 operations out of run-ok, run-crash (the tool writes n bytes of a generated listing and blocks; '
             'once the cache file has stopped growing the profiler and the tool are SIGKILLed - the cache is whatever the implementation left), run-toolfail (tool exits 1/2/3/127/255 after n bytes), run-toolmissing, change-binary '
             '(other content at the same path, other listing), then a final normal run; n is taken from the classes: 0, inside the first line, every flush boundary of the 4096-byte writer -1/0/+1, line boundaries, just before / '
             'inside / just after a syscall site, all but one byte, arbitrary fraction; listings come from the site model (5..200 sites, 3..60 distinct syscalls); oracle: every run that exits 0 (in particular the final one) prints '
             'exactly the profile of a cold-cache run (fresh HOME) for the current binary; a history is non-trivial iff it contains a crash or a tool failure; further operations: tool killed by a signal, two overlapping runs (second fails or is killed), writes to the cache failing beyond RLIMIT_FSIZE with a tool that does not notice; distinct by hash of the case JSON'),
    'assumptions': ['crash = SIGKILL of the profiler\'s process group after its cache file stopped growing; power-failure reorderings of file system writes are not modelled',
                    'the profiler is built with CGO_ENABLED=0 and run as a uid without passwd entry so that $HOME selects a private cache directory'],
    'required_classes': {'all': ['crash-before-first-flush', 'crash-between-flushes', 'tool-exit-nonzero-after-partial-output', 'tool-missing', 'tool-killed-by-signal', 'overlapping-runs', 'cache-write-fails-beyond-size-limit', 'binary-changed', 'final-run-correct-profile',
                                 'binary:amd64', 'binary:386']},
    'units': [
        {'test': 'TestC17Cache', 'checks': {'quick': 480, 'thorough': 24000}, 'shards': {'quick': 16, 'thorough': 16}, 'helpers': _PROFILER,
         'timeout': {'quick': 500, 'thorough': 3300}},
    ],
}
MANIFEST_TEXT['C17'] = {'claim': 'generated crash / tool-failure histories against the built profiler: SIGKILL after n bytes for n in every interesting class (flush boundaries, line and site boundaries), tool exit codes, missing tool, changed binary; every successful later run must equal a cold-cache run',
                        'note': 'crash points are enumerated by class of prefix length; the cache content is whatever the implementation left behind, the harness never writes it',
                        'technique': 'property-based testing (rapid) of fault histories; crash/fault injection at process boundaries; differential against a cold-cache run'}

PROPS['C18'] = {
    'level': 'exploration',
    'rule': ('cases = (binary amd64|386, listing seed with 0..300 distinct discovered syscalls and duplicated sites, -b flag values, -allow flag values, output format config|code|default): flag values hold 1..4 names each, '
             'separated by space/comma/semicolon, flags repeated; names are found syscalls, other table names, names of the other architecture only, unknown names; the two sets are disjoint; the built profiler is run with a '
             'fake `go` tool that prints the generated listing; oracle: the emitted list (YAML through the configuration loader, Go source through go/parser) == sorted duplicate-free (found - blacklist) + (allow ∩ table(arch)); '
             'closure: the YAML profile loaded as the sandbox would and compiled for the binary\'s architecture is executed on every table number, its neighbours and unlisted numbers: exactly the expected names are allowed, '
             'all others get ERRNO|EPERM; non-trivial: the blacklist removes a found syscall and the allow-list adds a new one, or sites are duplicated; names repeat inside a flag set, boundary names (numbers 0, 1, max) are used, 1/5 of the cases write with -out into a file that held a longer profile; distinct by hash of the case JSON'),
    'assumptions': ['the discovered set is known exactly because the listing only contains canonical sites of the site model',
                    'an empty allow-list profile need not load through the configuration path (no claim)'],
    'required_classes': {'all': ['format:config', 'format:code', 'format:default', 'binary:amd64', 'binary:386', 'empty-result', 'names>255', 'closure-checked',
                                 'blacklist-removes-and-allow-adds', 'duplicate-sites', 'out-file-rewritten']},
    'units': [
        {'test': 'TestC18Profiles', 'checks': {'quick': 480, 'thorough': 32000}, 'shards': {'quick': 16, 'thorough': 16}, 'helpers': _PROFILER,
         'timeout': {'quick': 500, 'thorough': 3300}},
    ],
}
MANIFEST_TEXT['C18'] = {'claim': 'generated discovered-syscall multisets x blacklist x allow-list flag spellings x formats against the built profiler; set-algebra oracle on the emitted list and closure check (load through the configuration path, compile, interpret every table number)',
                        'note': 'black-box test of the built command with a fake disassembler; the interpreter and the configuration loader are the trusted base of the closure check',
                        'technique': 'property-based testing (rapid) with a set-algebra model; round trip through the configuration path and the compiler'}


# ---- thorough tier only: native coverage-guided fuzz campaigns (bounded by time; a crasher is the reproducible unit) ----
for _pid, _target in (('C06', 'FuzzC06Labels'), ('C07', 'FuzzC07Validation'), ('C16', 'FuzzC16Extraction'), ('C03', 'FuzzC03Conditions'), ('C05', 'FuzzC05Programs')):
    PROPS[_pid]['units'].append({'fuzz': _target, 'tiers': ('thorough',), 'fuzztime': {'thorough': '90s'}, 'timeout': {'thorough': 600},
                                 'helpers': ['kverify'] if _pid == 'C05' else []})

PROPS['C14']['units'].append({'test': 'TestC14OtherProcesses', 'helpers': ['digest', {'name': 'digest', 'goarch': '386'}], 'timeout': {'quick': 300, 'thorough': 600}})
PROPS['C14']['units'].append({'test': 'TestC14FirstUse', 'checks': {'quick': 240, 'thorough': 12000}, 'shards': {'quick': 8, 'thorough': 16}, 'helpers': [{'name': 'racefirst', 'race': True, 'env': 'racefirst'}], 'timeout': {'quick': 300, 'thorough': 1500}})
PROPS['C05']['units'].append({'test': 'TestC05OtherProcesses', 'helpers': ['digest', {'name': 'digest', 'goarch': '386'}], 'timeout': {'quick': 300, 'thorough': 900}})
PROPS['C07']['units'].append({'test': 'TestC07OtherProcesses', 'helpers': ['digest', {'name': 'digest', 'goarch': '386'}], 'timeout': {'quick': 300, 'thorough': 900}})
PROPS['C13']['units'].append({'test': 'TestC13OtherProcesses', 'helpers': ['digest', {'name': 'digest', 'goarch': '386'}], 'timeout': {'quick': 300, 'thorough': 900}})
PROPS['C04']['units'].append({'test': 'TestC04OtherProcesses', 'helpers': ['digest', {'name': 'digest', 'goarch': '386'}], 'timeout': {'quick': 300, 'thorough': 900}})
PROPS['C12']['units'].append({'test': 'TestC12JsWasm', 'timeout': {'quick': 600, 'thorough': 900}})
PROPS['C07']['units'].append({'test': 'TestC07JsWasm', 'timeout': {'quick': 600, 'thorough': 900}})
PROPS['C01']['units'].append({'test': 'TestC01OtherProcesses', 'helpers': ['digest', {'name': 'digest', 'goarch': '386'}], 'timeout': {'quick': 300, 'thorough': 900}})
PROPS['C02']['units'].append({'test': 'TestC02OtherProcesses', 'helpers': ['digest', {'name': 'digest', 'goarch': '386'}], 'timeout': {'quick': 300, 'thorough': 900}})
PROPS['C01']['units'].append({'test': 'TestC01Sweep', 'tiers': ('thorough',), 'shards': {'thorough': 16}, 'timeout': {'thorough': 3000}})
# independent values used from several goroutines at once (round 7)
PROPS['C06']['units'].append({'test': 'TestC06Concurrent', 'checks': {'quick': 320, 'thorough': 16000}, 'shards': {'quick': 4, 'thorough': 8}, 'timeout': {'quick': 300, 'thorough': 3000}})
PROPS['C06']['required_classes']['all'].append('concurrent-builders-with-far-jumps')
PROPS['C12']['units'].append({'test': 'TestC12Concurrent', 'checks': {'quick': 400, 'thorough': 40000}, 'shards': {'quick': 2, 'thorough': 8}, 'timeout': {'quick': 300, 'thorough': 1500}})
PROPS['C12']['required_classes']['all'].append('concurrent-lookups-of-different-tables')
PROPS['C13']['required_classes']['all'] += ['operation-names-in-other-letter-case', 'text-forms-in-a-32-bit-process']
PROPS['C17']['required_classes']['all'] += ['cache-holds-the-dump-of-an-earlier-build', 'overlapping-runs-in-separate-pid-namespaces']
PROPS['C11']['units'].append({'test': 'TestC11Sandbox', 'checks': {'quick': 96, 'thorough': 2000}, 'shards': {'quick': 4, 'thorough': 8}, 'helpers': _SANDBOX, 'timeout': {'quick': 300, 'thorough': 1200}})
PROPS['C11']['required_classes']['all'] += ['sandbox:unprivileged-without-the-bit-fails', 'sandbox:target-bit=0', 'sandbox:target-bit=1']
PROPS['C01']['units'].append({'test': 'TestC01Concurrent', 'checks': {'quick': 320, 'thorough': 16000}, 'shards': {'quick': 4, 'thorough': 8}, 'timeout': {'quick': 300, 'thorough': 3000}})
PROPS['C05']['units'].append({'test': 'TestC05Concurrent', 'checks': {'quick': 320, 'thorough': 16000}, 'shards': {'quick': 4, 'thorough': 8}, 'timeout': {'quick': 300, 'thorough': 3000}})
PROPS['C01']['required_classes']['all'] += ['groups>=64', 'concurrent-compilations-for-different-architectures']
PROPS['C05']['required_classes']['all'] += ['concurrent-compilations-for-different-architectures', 'value-edited-and-compiled-again-while-the-program-is-held']
PROPS['C15']['required_classes']['all'] += ['policy-file-larger-than-64KiB', 'keys-outside-the-dialect:accepted']
PROPS['C10']['required_classes']['all'] += ['policy-that-allows-everything']
PROPS['C13']['units'].append({'test': 'TestC13JsWasm', 'timeout': {'quick': 600, 'thorough': 900}})
PROPS['C16']['units'].append({'test': 'TestC16HugeListing', 'timeout': {'quick': 300, 'thorough': 1200}})

# round 10: compilations for one architecture, of different sizes, at the same time (state kept per architecture)
PROPS['C04']['units'].append({'test': 'TestC04Concurrent', 'checks': {'quick': 480, 'thorough': 16000}, 'shards': {'quick': 8, 'thorough': 16}, 'timeout': {'quick': 300, 'thorough': 3000}})
PROPS['C04']['required_classes']['all'] += ['concurrent-compilations-of-different-sizes-for-one-architecture']
# round 10: conditional entries without conditions (C05); an enclosing filter that refuses SECCOMP_GET_ACTION_AVAIL while the policy uses log (C11)
PROPS['C05']['required_classes']['all'] += ['accepted:conditional-entries-none-of-which-carries-a-condition', 'accepted:some-conditional-entries-without-conditions']
PROPS['C11']['required_classes']['all'] += ['calling-thread:action-avail-denied/nnp:true']
# round 10: what a policy file means does not depend on its name; the json.Marshal form of a policy is a policy file
PROPS['C15']['required_classes']['all'] += ['policy-file-name-extension:.json/content:json', 'policy-file-name-extension:.json/content:yaml', 'policy-file-name-extension:.yaml/content:json']
# round 10: the configuration path of C14 exercised through the sandbox command itself (file names, json.Marshal form, large files)
PROPS['C14']['units'].append({'test': 'TestC14SandboxPath', 'checks': {'quick': 320, 'thorough': 20000}, 'shards': {'quick': 8, 'thorough': 16}, 'helpers': _SANDBOX, 'timeout': {'quick': 500, 'thorough': 3300}})
PROPS['C14']['required_classes']['all'] += ['policy-file-name-extension:.json/content:json', 'policy-file-larger-than-64KiB']

MANIFEST_TEXT['C14']['claim'] += '; the same files (YAML spellings, json.Marshal form, names with and without a telling extension, larger than 64 KiB) given to the built sandbox command, whose target must observe the in-memory policy\'s decisions'
MANIFEST_TEXT['C16']['claim'] += '; every extraction under a watchdog (terminates); functions of thousands of lines before a bare site'
