#!/usr/bin/env python3
"""Regenerates MANIFEST.json from checks_config.PROPS (claimed checks) and
properties.jsonl (everything else goes to not_applicable with a reason)."""
import json, os, sys
HERE = os.path.dirname(os.path.abspath(__file__))
sys.path.insert(0, HERE)
from checks_config import PROPS, MANIFEST_TEXT, NOT_APPLICABLE

ids = [json.loads(l)['id'] for l in open(os.path.join(HERE, 'properties.jsonl')) if l.strip()]
checks = []
for pid in ids:
    if pid not in PROPS:
        continue
    mt = MANIFEST_TEXT[pid]
    checks.append({
        'property_id': pid,
        'quick_cmd': './check %s quick' % pid,
        'thorough_cmd': './check %s thorough' % pid,
        'evidence_file': 'evidence/%s.json' % pid,
        'replay_cmd_template': './check %s quick --replay {path}' % pid,
        'engine': 'harness',
        'level_claimed': {'category': PROPS[pid]['level'], 'text': mt['claim'], 'design_ref': 'DESIGN.md section 3, ' + pid},
        'level_note': mt['note'],
        'technique': mt['technique'],
    })
na = []
for pid in ids:
    if pid not in PROPS:
        na.append({'property_id': pid, 'reason': NOT_APPLICABLE.get(pid, 'no check is registered for this property yet (harness under construction); nothing is claimed')})
m = {
    'version': 1,
    'setup_cmd': './check --setup',
    'hooks': {
        'guard': 'verif',
        'enable': 'the driver builds its own Go module (harness/) with -tags verif and a replace directive pointing at /repo, through a temporary -modfile; nothing is built inside /repo',
        'baseline_off_cmd': 'cd /repo && GOFLAGS=-mod=mod go test -json -vet=off -count=1 -timeout 25m ./...',
        'source_commits': ['42bf102'],
        'add_only': True,
    },
    'engines': [{'name': 'harness', 'path': 'harness/', 'serves_properties': [c['property_id'] for c in checks],
                 'kind_free_text': 'Go module: rapid v1.3.0 property tests + native fuzz targets + helper programs, driven by ./check (python3)'}],
    'checks': checks,
    'not_applicable': na,
    'notes': 'exit 0 = held, exit 1 = VIOLATION line, exit 2 = inconclusive (never a pass). VERIF_SEED selects the rapid seed. KNOWN_FINDINGS.txt lists repaired defects (fixed:) and known findings (known:).',
}
json.dump(m, open(os.path.join(HERE, 'MANIFEST.json'), 'w'), indent=1)
print('claimed', [c['property_id'] for c in checks], 'not_applicable', [n['property_id'] for n in na])
